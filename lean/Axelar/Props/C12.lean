/-
  C12 — Governance acts only on authenticated commands; operator proposals need approval.
-/
import Axelar.Model.Governance
import Axelar.Proofs.GatewayProofs
namespace Axelar.Props.C12
open Axelar Axelar.Governance Codec

/-- **Commands are authenticated and consumed.**  A successful `execute`: source chain and
    address are the configured governance source, the gateway held an approval addressed to
    the governance contract for exactly this (chain, id, source, keccak(payload)), and that
    approval is now executed — so the same command cannot be processed again. -/
theorem command_is_authenticated (C : Crypto) (st st' : State) (gw gw' : Gateway.State) (ctx : Ctx)
    (chain id src payload : Bytes) (e1 e2 : List Ev)
    (h : execute C st gw ctx chain id src payload = .ok (st', gw', e1, e2)) :
    chain = st.govChain ∧ src = st.govAddress ∧
    gw.messages (chain, id) = .approved (Gateway.messageHash C chain id src ctx.self (C.H payload)) ∧
    gw'.messages (chain, id) = .executed ∧
    (∀ e, execute C st' gw' ctx chain id src payload ≠ .ok e) := by
  simp only [execute] at h
  split at h
  · cases h
  · rename_i hsrc
    simp only [Bool.not_eq_true', Bool.and_eq_false_iff, not_or] at hsrc
    have hs : chain = st.govChain ∧ src = st.govAddress := by
      by_cases a : chain = st.govChain <;> by_cases b : src = st.govAddress <;> simp_all
    have hv := Gateway.validateMessage_spec C gw ctx.self chain id src (C.H payload)
    simp only at hv
    cases hval : (Gateway.validateMessage C gw ctx.self chain id src (C.H payload)).2.1 with
    | false => simp [hval] at h
    | true =>
      simp only [hval] at h
      have hgw' := hv.2.1 hval
      have happ := hv.1.mp hval
      split at h
      · cases h
      · split at h
        · cases h
        · split at h
          · cases h
          · have hgw : gw' = (Gateway.validateMessage C gw ctx.self chain id src (C.H payload)).1 := by
              split at h
              · cases h
              · injection h with h; injection h with _ h; injection h with h _; exact h.symm
            refine ⟨hs.1, hs.2, happ, by rw [hgw, hgw']; simp [upd], ?_⟩
            rw [hgw]
            intro e he
            simp only [execute] at he
            split at he
            · cases he
            · have hv2 := Gateway.validateMessage_spec C (Gateway.validateMessage C gw ctx.self chain id src (C.H payload)).1
                ctx.self chain id src (C.H payload)
              simp only at hv2
              cases hval2 : (Gateway.validateMessage C (Gateway.validateMessage C gw ctx.self chain id src (C.H payload)).1
                  ctx.self chain id src (C.H payload)).2.1 with
              | false => simp [hval2] at he
              | true =>
                have := hv2.1.mp hval2
                rw [hgw'] at this
                simp [upd] at this

/-- **Unauthenticated or malformed commands do nothing** (and, failing, consume nothing). -/
theorem forged_source_rejected (C : Crypto) (st : State) (gw : Gateway.State) (ctx : Ctx)
    (chain id src payload : Bytes) (h : chain ≠ st.govChain ∨ src ≠ st.govAddress) :
    execute C st gw ctx chain id src payload = .error .notGovernance := by
  simp only [execute]
  have : (chain == st.govChain && src == st.govAddress) = false := by
    rcases h with h | h <;> simp [h]
  simp [this]

theorem unapproved_command_rejected (C : Crypto) (st : State) (gw : Gateway.State) (ctx : Ctx)
    (chain id src payload : Bytes)
    (h : gw.messages (chain, id) ≠ .approved (Gateway.messageHash C chain id src ctx.self (C.H payload))) :
    ∃ e, execute C st gw ctx chain id src payload = .error e := by
  cases he : execute C st gw ctx chain id src payload with
  | error e => exact ⟨e, rfl⟩
  | ok v =>
    obtain ⟨st', gw', e1, e2⟩ := v
    exact absurd (command_is_authenticated C st st' gw gw' ctx chain id src payload e1 e2 he).2.2.1 h

/-- **Time locks and operator approvals change only through** an authenticated `execute`, a
    dispatch (which clears one entry) or a failure callback (which restores it): every other
    endpoint of the contract leaves both maps untouched. -/
theorem locks_and_approvals_frame (C : Crypto) (st : State) (ctx : Ctx) (func : String)
    (args : List Bytes) (out : Out) (h : call C st ctx func args = .ok out)
    (h1 : func ≠ "executeProposal") (h2 : func ≠ "executeOperatorProposal") :
    out.st.eta = st.eta ∧ out.st.approvals = st.approvals := by
  unfold call at h
  split at h
  · exact absurd rfl h1
  · exact absurd rfl h2
  · split at h
    · cases h
    · split at h
      all_goals (
        repeat' (first
          | (cases h; done)
          | (cases h; exact ⟨rfl, rfl⟩)
          | split at h))

/-- **Operator dispatch**: only the current operator, only with an outstanding approval for
    exactly this (target, call data, value); the approval is consumed by the dispatch. -/
theorem operator_dispatch_needs_approval (C : Crypto) (st : State) (ctx : Ctx) (t cd : Bytes) (v : Nat)
    (out : Out) (h : executeOperatorProposal C st ctx t cd v = .ok out) :
    ctx.caller = st.operator ∧ st.approvals (proposalHash C t cd v) = true ∧
    out.st.approvals (proposalHash C t cd v) = false ∧ out.st.eta = st.eta ∧
    ∃ d, out.dispatch = some d ∧ d.operatorProposal = true ∧ d.hash = proposalHash C t cd v ∧
      d.target = t ∧ d.value = v := by
  simp only [executeOperatorProposal] at h
  split at h
  · cases h
  · rename_i hc
    split at h
    · cases h
    · rename_i ha
      split at h
      · cases h
      · cases h
        exact ⟨by simpa using hc, by simpa using ha, by simp [upd], rfl, _, rfl, rfl, rfl, rfl, rfl⟩

/-- the failure callback restores the approval, the success callback does not; a cancel
    command removes it -/
theorem operator_approval_lifecycle (C : Crypto) (st : State) (d : Dispatch) (rs : List Bytes)
    (hd : d.operatorProposal = true) (now : Nat) (t cd : Bytes) (v eta : Nat) :
    (callback st d false rs).st.approvals d.hash = true ∧
    (callback st d true rs).st.approvals = st.approvals ∧
    (∀ st' evs, processCommand C st now .cancelOperator t cd v eta = .ok (st', evs) →
      st'.approvals (proposalHash C t cd v) = false) ∧
    (∀ st' evs, processCommand C st now .approveOperator t cd v eta = .ok (st', evs) →
      st'.approvals (proposalHash C t cd v) = true) := by
  refine ⟨?_, by simp [callback], ?_, ?_⟩
  · simp [callback, hd, upd]
  · intro st' evs h; simp only [processCommand] at h; cases h; simp [upd]
  · intro st' evs h; simp only [processCommand] at h; cases h; simp [upd]

/-- **The operator changes only at the request of the operator or of the contract itself.** -/
theorem operator_changes_gated (C : Crypto) (st : State) (ctx : Ctx) (func : String)
    (args : List Bytes) (out : Out) (h : call C st ctx func args = .ok out)
    (hne : out.st.operator ≠ st.operator) :
    func = "transferOperatorship" ∧ (ctx.caller = st.operator ∨ ctx.caller = ctx.self) := by
  unfold call at h
  split at h
  · split at h
    · rename_i t _
      cases he : executeProposal C st ctx t _ (topBig _) with
      | error e => rw [he] at h; cases h
      | ok o =>
        rw [he] at h; cases h
        exfalso; apply hne
        simp only [executeProposal] at he
        split at he
        · cases he
        · rename_i st' eta hfin
          split at he
          · cases he
          · cases he
            simp only [finalizeTimeLock] at hfin
            split at hfin
            · cases hfin
            · split at hfin
              · cases hfin
              · cases hfin; rfl
    · cases h
  · split at h
    · rename_i t _
      cases he : executeOperatorProposal C st ctx t _ (topBig _) with
      | error e => rw [he] at h; cases h
      | ok o =>
        rw [he] at h; cases h
        exfalso; apply hne
        simp only [executeOperatorProposal] at he
        repeat' (first | (cases he; done) | (cases he; rfl) | split at he)
    · cases h
  · split at h
    · cases h
    · split at h
      -- withdraw
      · repeat' (first | (cases h; done) | (cases h; exact absurd rfl hne) | split at h)
      -- transferOperatorship
      · split at h
        · split at h
          · cases h
          · rename_i hc
            split at h
            · cases h
            · cases h
              refine ⟨rfl, ?_⟩
              by_cases ho : ctx.caller = st.operator
              · exact Or.inl ho
              · right
                simp only [Bool.not_eq_true', Bool.or_eq_false_iff, not_and, beq_eq_false_iff_ne, ne_eq,
                  Bool.not_eq_false, beq_iff_eq] at hc
                by_cases hs : ctx.caller = ctx.self
                · exact hs
                · exact absurd (hc ho) (by simpa using hs)
        · cases h
      all_goals (
        repeat' (first
          | (cases h; done)
          | (cases h; exact absurd rfl hne)
          | split at h))

/-- **Apart from refund credits, the contract's funds leave only through `withdraw`, and only
    when the caller is the contract itself (that is, through a dispatched proposal).** -/
theorem funds_leave_only_by_self (C : Crypto) (st : State) (ctx : Ctx) (func : String)
    (args : List Bytes) (out : Out) (h : call C st ctx func args = .ok out) (hs : out.sends ≠ []) :
    (func = "withdraw" ∧ ctx.caller = ctx.self) ∨ func = "withdrawRefundToken" := by
  unfold call at h
  split at h
  · split at h
    · rename_i t _
      cases he : executeProposal C st ctx t _ (topBig _) with
      | error e => rw [he] at h; cases h
      | ok o =>
        rw [he] at h; cases h
        exfalso; apply hs
        simp only [executeProposal] at he
        repeat' (first | (cases he; done) | (cases he; rfl) | split at he)
    · cases h
  · split at h
    · rename_i t _
      cases he : executeOperatorProposal C st ctx t _ (topBig _) with
      | error e => rw [he] at h; cases h
      | ok o =>
        rw [he] at h; cases h
        exfalso; apply hs
        simp only [executeOperatorProposal] at he
        repeat' (first | (cases he; done) | (cases he; rfl) | split at he)
    · cases h
  · split at h
    · cases h
    · split at h
      -- withdraw
      · split at h
        · split at h
          · cases h
          · rename_i hc
            cases h
            exact Or.inl ⟨rfl, by simpa using hc⟩
        · cases h
      all_goals (
        repeat' (first
          | (cases h; done)
          | (cases h; exact absurd rfl hs)
          | (exact Or.inr rfl)
          | split at h))

/-! ### Non-vacuity (test) -/
example : (top decExecutePayload ([2] ++ List.replicate 32 7 ++ [0,0,0,1,9] ++ [0,0,0,0] ++ [0,0,0,0,0,0,0,5])).isSome = true := by
  decide

end Axelar.Props.C12
