/-
  C12 — operator proposals counted over every history of the governance contract:

      (1 if the proposal is approved now) + (operator dispatches of it in flight) + (operator dispatches of it
      whose call succeeded)  ≤  (approve-operator commands accepted for it)

  for every list of endpoint calls (the model's dispatcher — any caller, endpoint, arguments, payments),
  governance commands (`execute` against any gateway state) and callbacks of dispatches in flight (each once,
  any order, any outcome).  So an operator proposal whose approval was never commanded is never approved,
  never in flight and never executed, and one approval pays for at most one successful dispatch — also across
  failures (which restore it), cancels and repeated approvals.  The history is the concrete `GOp` of
  `Proofs/GovLedger.lean`; the counters are ghost state the contract never reads.
-/
import Axelar.Proofs.GovCount
namespace Axelar.Props.C12
open Axelar Axelar.Governance Codec

/-- **One approval, at most one successful operator dispatch — over every history.**  From a contract on which
    no operator proposal is approved (deployment), after any list of endpoint calls, governance commands and
    callbacks: per proposal, (approved now) + (operator dispatches in flight) + (operator dispatches that
    succeeded) ≤ (approve-operator commands accepted). -/
theorem operator_dispatches_never_exceed_approvals (C : Crypto) (st0 : State) (h0 : ∀ x, st0.approvals x = false)
    (ops : List GOp) (x : Bytes) :
    opLive (runCnt C { st := st0 } ops).st x + opFlying (runCnt C { st := st0 } ops).inflight x +
      (runCnt C { st := st0 } ops).opSucceeded x ≤ (runCnt C { st := st0 } ops).approvedCmds x := by
  apply run_cntInv
  intro y
  simp [opLive, opFlying, h0]

/-- … in particular a proposal whose approval was never commanded is not approved, not in flight as an operator
    dispatch and was never executed by the operator. -/
theorem never_approved_never_operator_dispatched (C : Crypto) (st0 : State) (h0 : ∀ x, st0.approvals x = false)
    (ops : List GOp) (x : Bytes) (hn : (runCnt C { st := st0 } ops).approvedCmds x = 0) :
    (runCnt C { st := st0 } ops).st.approvals x = false ∧ (runCnt C { st := st0 } ops).opSucceeded x = 0 ∧
      opFlying (runCnt C { st := st0 } ops).inflight x = 0 := by
  have := operator_dispatches_never_exceed_approvals C st0 h0 ops x
  rw [hn] at this
  refine ⟨?_, by omega, by omega⟩
  have hl : opLive (runCnt C { st := st0 } ops).st x = 0 := by omega
  unfold opLive at hl
  split at hl
  · cases hl
  · rename_i hne; simpa using hne

/-! ### Non-vacuity (test): an approve command, a dispatch by the operator and a successful callback are counted -/
example : opWeight ⟨[1], [], 0, [], [9], 0, [2], .egld 0, true⟩ [9] = 1 := by decide
example : opFlying [⟨[1], [], 0, [], [9], 0, [2], .egld 0, true⟩, ⟨[1], [], 0, [], [9], 5, [2], .egld 0, false⟩] [9] = 1 := by
  decide

end Axelar.Props.C12
