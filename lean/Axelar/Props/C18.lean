/-
  C18 — ITS token deployment flows consume authority once and issue one token per id.
-/
import Axelar.Proofs.GwHistory
import Axelar.Proofs.TokenManagerProofs
import Axelar.Proofs.ItsMintStep
namespace Axelar.Props.C18
open Axelar Axelar.ItsW Axelar.Its Codec

/-- **Once a token manager has recorded its token, that token is never replaced** — by any
    endpoint call (any caller, arguments, payment, time) … -/
theorem recorded_token_survives_every_call (st : TokenManager.State) (ctx : TokenManager.Ctx) (func : String)
    (args : List Bytes) (out : TokenManager.Out) (h : TokenManager.call st ctx func args = .ok out)
    (hset : st.tokenIdentifier ≠ []) : out.st.tokenIdentifier = st.tokenIdentifier := by
  rcases TokenManager.call_cases st ctx func args out h with
    ⟨d, a, _, hg⟩ | ⟨_, ht⟩ | ⟨l, _, hs⟩ | ⟨a, amt, _, hm⟩ | ⟨_, hb⟩ | ⟨m, n, s, d, _, hd⟩ | ⟨r, hr, hro⟩ | ⟨he, _, _⟩
  · obtain ⟨_, hf, _⟩ := TokenManager.giveToken_spec st ctx d a out hg
    rcases TokenManager.addFlowIn_spec _ _ _ _ hf with ⟨_, e1⟩ | ⟨_, _, _, e1⟩ <;> rw [e1]
  · obtain ⟨_, _, tok, amount, _, hf, _, _⟩ := TokenManager.takeToken_spec st ctx out ht
    rcases TokenManager.addFlowOut_spec _ _ _ _ hf with ⟨_, e1⟩ | ⟨_, _, _, e1⟩ <;> rw [e1]
  · unfold TokenManager.setFlowLimit at hs
    split at hs
    · cases hs
    · cases hs; rfl
  · unfold TokenManager.mint at hm
    repeat' (first | (cases hm; done) | (cases hm; rfl) | split at hm)
  · unfold TokenManager.burn at hb
    repeat' (first | (cases hb; done) | (cases hb; rfl) | split at hb)
  · -- deployInterchainToken refuses a manager whose token is already recorded
    unfold TokenManager.deployInterchainToken at hd
    split at hd
    · cases hd
    · split at hd
      · cases hd
      · split at hd
        · cases hd
        · rename_i hempty
          exfalso; apply hset
          simpa using hempty
  · exact (TokenManager.roleStep_same st ctx func r out hr hro).1.tokenIdentifier
  · rw [he]

/-- … nor by an issuance callback that arrives later (a second issuance that was in flight). -/
theorem recorded_token_survives_issue_callback (st : TokenManager.State) (result : Option Bytes)
    (hset : st.tokenIdentifier ≠ []) :
    (TokenManager.deployTokenCallback st result).st.tokenIdentifier = st.tokenIdentifier := by
  unfold TokenManager.deployTokenCallback
  cases result with
  | none => rfl
  | some tok =>
    have : st.tokenIdentifier.isEmpty = false := by simpa using hset
    simp [this]

/-- a successful issuance records exactly the identifier the system contract returned; a failed
    one records nothing (and the issue cost stays in the manager for the retry) -/
theorem issue_callback_records (st : TokenManager.State) (tok : Bytes) (hempty : st.tokenIdentifier = []) :
    (TokenManager.deployTokenCallback st (some tok)).st.tokenIdentifier = tok ∧
    (TokenManager.deployTokenCallback st none).st = st := by
  simp [TokenManager.deployTokenCallback, hempty]

/-- **Inbound deploy message, step 1**: creates the manager only when the gateway holds the
    approval, and does NOT consume it (`isMessageApproved` is a view: the gateway state is
    unchanged by this step's gateway call). -/
theorem inbound_step1_only_reads_the_approval (C : Crypto) (cx : ICtx) (a b c d : Bytes) (t t1 : Tx) (r : Bool)
    (hk : t.w.kind t.w.its.gateway = some .gateway)
    (h : gatewayIsApproved C cx a b c d t = some (r, t1)) : t1.w.gw = t.w.gw := by
  simp only [gatewayIsApproved, run_bind, run_getI] at h
  cases hs : subcall C cx t.w.its.gateway "isMessageApproved" 0 [] [a, b, c, cx.self, d] t with
  | none => simp [hs] at h
  | some x =>
    obtain ⟨rs, tt⟩ := x
    simp only [hs, run_pure, Option.some.injEq, Prod.mk.injEq] at h
    obtain ⟨_, rfl⟩ := h
    unfold subcall at hs
    cases hp : World.pay t.w cx.self t.w.its.gateway 0 [] with
    | none => simp [hp] at hs
    | some w1 =>
      simp only [hp] at hs
      obtain ⟨g1, g2, _, _⟩ := World.pay_gw _ _ _ _ _ _ hp
      cases hc : World.callOther C w1 cx.self t.w.its.gateway "isMessageApproved" 0 [] [a, b, c, cx.self, d] with
      | none => simp [hc] at hs
      | some rr =>
        obtain ⟨w2, rs2, evs, pd⟩ := rr
        simp only [hc, Option.some.injEq, Prod.mk.injEq] at hs
        obtain ⟨_, rfl⟩ := hs
        unfold World.callOther at hc
        rw [g2, hk] at hc
        simp only [ne_eq, not_true_eq_false, decide_false, List.isEmpty_nil, Bool.not_true, Bool.or_self,
          Bool.false_eq_true, if_false] at hc
        cases hg : Gateway.call C w1.gw ⟨cx.self, w1.owner t.w.its.gateway, w1.now⟩ "isMessageApproved" [a, b, c, cx.self, d] with
        | error e => simp [hg] at hc
        | ok v =>
          obtain ⟨gw', rs3, evs3⟩ := v
          simp only [hg, Option.some.injEq, Prod.mk.injEq] at hc
          obtain ⟨rfl, _, _, _⟩ := hc
          simp only
          rw [← g1]
          -- `isMessageApproved` is a view of the gateway
          unfold Gateway.call at hg
          simp only at hg
          split at hg
          all_goals (first | (cases hg; done) | skip)
          all_goals (first | (injection hg with hg; injection hg with hg _; exact hg.symm) | skip)
          all_goals simp_all


/-- step 1 reads exactly the approval for (source chain, message id, source address, THIS
    service, payload hash) -/
theorem inbound_step1_reads_the_exact_approval (C : Crypto) (cx : ICtx) (a b c d : Bytes) (t t1 : Tx)
    (hk : t.w.kind t.w.its.gateway = some .gateway)
    (h : gatewayIsApproved C cx a b c d t = some (true, t1)) :
    t.w.gw.messages (a, b) = .approved (Gateway.messageHash C a b c cx.self d) := by
  simp only [gatewayIsApproved, run_bind, run_getI] at h
  cases hs : subcall C cx t.w.its.gateway "isMessageApproved" 0 [] [a, b, c, cx.self, d] t with
  | none => simp [hs] at h
  | some x =>
    obtain ⟨rs, tt⟩ := x
    simp only [hs, run_pure, Option.some.injEq, Prod.mk.injEq] at h
    obtain ⟨hrs, rfl⟩ := h
    have hrs' : rs = [encBool true] := by simpa using hrs
    unfold subcall at hs
    cases hp : World.pay t.w cx.self t.w.its.gateway 0 [] with
    | none => simp [hp] at hs
    | some w1 =>
      simp only [hp] at hs
      obtain ⟨g1, g2, _, _⟩ := World.pay_gw _ _ _ _ _ _ hp
      cases hc : World.callOther C w1 cx.self t.w.its.gateway "isMessageApproved" 0 [] [a, b, c, cx.self, d] with
      | none => simp [hc] at hs
      | some rr =>
        obtain ⟨w2, rs2, evs, pd⟩ := rr
        simp only [hc, Option.some.injEq, Prod.mk.injEq] at hs
        obtain ⟨rfl, rfl⟩ := hs
        unfold World.callOther at hc
        rw [g2, hk] at hc
        simp only [ne_eq, not_true_eq_false, decide_false, List.isEmpty_nil, Bool.not_true, Bool.or_self,
          Bool.false_eq_true, if_false] at hc
        cases hg : Gateway.call C w1.gw ⟨cx.self, w1.owner t.w.its.gateway, w1.now⟩ "isMessageApproved" [a, b, c, cx.self, d] with
        | error e => simp [hg] at hc
        | ok v =>
          obtain ⟨gw', rs3, evs3⟩ := v
          simp only [hg, Option.some.injEq, Prod.mk.injEq] at hc
          obtain ⟨_, rfl, _, _⟩ := hc
          rw [← g1]
          obtain ⟨_, hres⟩ := Gateway.isMessageApproved_call C _ _ _ _ _ _ _ _ _ _ hg
          rw [hrs'] at hres
          simp only [List.cons.injEq, and_true] at hres
          cases hb : Gateway.isMessageApproved C w1.gw a b c cx.self d
          · rw [hb] at hres; simp [encBool] at hres
          · simpa [Gateway.isMessageApproved] using hb

/-! ### One issuance per message, over every schedule -/

/-- **Nothing happens without the approval, and the issuing step consumes it**: a deploy-token
    message makes progress only if the gateway holds the approval for exactly its fields
    addressed to the service; the manager-creating step leaves the gateway untouched; the
    issuing step leaves the message `Executed`. -/
theorem deploy_message_step (C : Crypto) (cx : ICtx) (sc mid sa ph payload : Bytes) (t t' : Tx) (d : Abi.Deploy)
    (hd : Abi.Deploy.decode payload = .ok d) (hk : t.w.kind t.w.its.gateway = some .gateway)
    (h : processDeployInterchainToken C cx sc mid sa ph payload t = some ((), t')) :
    t.w.gw.messages (sc, mid) = .approved (Gateway.messageHash C sc mid sa cx.self ph) ∧
    ((t.w.its.tmAddress d.tokenId = [] ∧ t'.w.gw = t.w.gw) ∨
     (t.w.its.tmAddress d.tokenId ≠ [] ∧ t'.w.gw.messages (sc, mid) = .executed)) := by
  simp only [processDeployInterchainToken, hd, run_bind, run_getI] at h
  by_cases he : (t.w.its.tmAddress d.tokenId).isEmpty = true
  · -- step 1
    simp only [he, if_true, run_require] at h
    by_cases hz : (cx.egld == 0) = true
    · simp only [hz, run_bind, run_require, if_true] at h
      cases hv : gatewayIsApproved C cx sc mid sa ph t with
      | none => simp [hv] at h
      | some x =>
        obtain ⟨ok, t1⟩ := x
        simp only [hv] at h
        cases ok with
        | false => simp at h
        | true =>
          simp only [if_true] at h
          have hgw := inbound_step1_only_reads_the_approval C cx sc mid sa ph t t1 true hk hv
          refine ⟨inbound_step1_reads_the_exact_approval C cx sc mid sa ph t t1 hk hv, Or.inl ⟨by simpa using he, ?_⟩⟩
          cases hm : deployTokenManagerRaw C cx d.tokenId 0 none d.minter t1 with
          | none => simp [hm] at h
          | some y =>
            obtain ⟨addr, t2⟩ := y
            simp only [hm, run_pure, Option.some.injEq, Prod.mk.injEq, true_and] at h
            subst h
            rw [(gws_deployTokenManagerRaw C cx d.tokenId 0 none d.minter).h t1 addr t2 hm, hgw]
    · simp [hz] at h
  · -- step 2
    simp only [he, Bool.false_eq_true, if_false, run_bind, run_require] at h
    cases hv : gatewayValidate C cx sc mid sa ph t with
    | none => simp [hv] at h
    | some x =>
      obtain ⟨ok, t1⟩ := x
      simp only [hv] at h
      cases ok with
      | false => simp at h
      | true =>
        simp only [if_true] at h
        obtain ⟨ha, hex⟩ := gatewayValidate_true C cx sc mid sa ph t t1 hk hv
        refine ⟨ha, Or.inr ⟨by simpa using he, ?_⟩⟩
        -- the rest of the step (minter parsing, the manager's `deployInterchainToken`) keeps `executed`
        have hrest : GwL (do
            let minter ← (if d.minter.isEmpty then pure none
                          else if d.minter.length = 32 then pure (some d.minter) else fail : M (Option Bytes))
            tmDeployInterchainToken C cx d.tokenId minter d.name d.symbol d.decimals.toNat) := by gwl
        exact ((hrest.h t1 () t' (by rw [run_bind]; exact h)) (sc, mid)).1 hex

/-- **An executed deploy message drives nothing further** — neither step. -/
theorem executed_deploy_message_does_nothing (C : Crypto) (cx : ICtx) (sc mid sa ph payload : Bytes) (t : Tx)
    (d : Abi.Deploy) (hd : Abi.Deploy.decode payload = .ok d) (hk : t.w.kind t.w.its.gateway = some .gateway)
    (hex : t.w.gw.messages (sc, mid) = .executed) :
    processDeployInterchainToken C cx sc mid sa ph payload t = none := by
  cases hr : processDeployInterchainToken C cx sc mid sa ph payload t with
  | none => rfl
  | some x =>
    obtain ⟨u, t'⟩ := x
    have := (deploy_message_step C cx sc mid sa ph payload t t' d hd hk hr).1
    rw [hex] at this
    cases this

/-- **At most one issuance per message**: once the issuing step has run (message executed), in
    every later state of every history both steps fail for that message. -/
theorem one_issuance_per_message (C : Crypto) (w : World) (ops : List World.Op) (cx : ICtx)
    (sc mid sa ph payload : Bytes) (d : Abi.Deploy) (hd : Abi.Deploy.decode payload = .ok d)
    (hex : w.gw.messages (sc, mid) = .executed) (t : Tx) (ht : t.w.gw = (World.run C w ops).gw)
    (hk : t.w.kind t.w.its.gateway = some .gateway) :
    processDeployInterchainToken C cx sc mid sa ph payload t = none :=
  executed_deploy_message_does_nothing C cx sc mid sa ph payload t d hd hk
    (by rw [ht]; exact (World.run_life C ops w (sc, mid)).1 hex)

/-- **A zero-supply deployment without a minter is refused**, and so is naming the service
    itself as minter. -/
theorem zero_supply_without_minter_refused (C : Crypto) (cx : ICtx) (salt n s : Bytes) (d : Nat) (m : Bytes) (t : Tx)
    (h : Gateway.isZeroAddr m = true ∨ m = cx.self) :
    factoryDeployInterchainToken C cx salt n s d 0 m t = none := by
  simp only [factoryDeployInterchainToken, run_bind, requireNotPaused_run, run_getI]
  cases hp : t.w.its.paused
  · rcases h with h | h
    · simp [h]
    · by_cases hz : Gateway.isZeroAddr m = true
      · simp [hz]
      · simp [hz, h]
  · simp

/-! ### The local flow's third transaction: the initial supply is minted once, the roles go to the nominated minter -/

/-- **Mint and hand-over, exactly.**  A successful third factory transaction (initial supply
    > 0) for a nominated minter other than the service: the deployer (the caller) receives
    exactly the requested supply of the manager's token, freshly minted — no other balance of
    any account in any asset changes —; afterwards the service holds none of the minter,
    operator and flow-limiter roles on that manager and the nominated minter holds all three;
    the recorded token is unchanged.  The step was possible only because the service held the
    minter role. -/
theorem mint_step_mints_the_supply_and_hands_over (C : Crypto) (cx : ICtx) (tm minter : Bytes) (supply : Nat)
    (t t' : Tx) (hk : t.w.kind tm = some .tokenManager) (hne : minter ≠ cx.self)
    (h : factoryMintStep C cx tm minter supply t = some ((), t')) :
    ((t.w.tms tm).roles cx.self).minter = true ∧
    (t'.w.tms tm).roles cx.self = {} ∧ (t'.w.tms tm).roles minter = ⟨true, true, true⟩ ∧
    (t'.w.tms tm).tokenIdentifier = (t.w.tms tm).tokenIdentifier ∧
    ∃ tk, TokenManager.tokOfBytes (t.w.tms tm).tokenIdentifier = some tk ∧
      World.Led t.w t'.w World.nil (World.pt cx.caller (some tk) supply) := by
  obtain ⟨h1, h2, h3, h4, _, _, h7⟩ := factoryMintStep_roles C cx tm minter supply t t' hk hne h
  exact ⟨h1, h2, h3, h4, h7⟩

/-- **Exactly once**: without the minter role on the manager the mint step fails — so after a
    successful mint step (which leaves the service with no role at all) it cannot be repeated,
    whatever supply and minter the repetition names. -/
theorem mint_step_needs_the_minter_role (C : Crypto) (cx : ICtx) (tm minter : Bytes) (supply : Nat) (t : Tx)
    (hk : t.w.kind tm = some .tokenManager) (hno : ((t.w.tms tm).roles cx.self).minter = false) :
    factoryMintStep C cx tm minter supply t = none := by
  cases h : factoryMintStep C cx tm minter supply t with
  | none => rfl
  | some x =>
    obtain ⟨u, t'⟩ := x
    cases u
    -- the first call is `mint`, which requires the role
    simp only [factoryMintStep, run_bind] at h
    cases h1 : subcall C cx tm "mint" 0 [] [cx.caller, encNat supply] t with
    | none => simp [h1] at h
    | some x1 =>
      obtain ⟨r1, t1⟩ := x1
      obtain ⟨o1, c1, _⟩ := subcall_tm_call C cx tm _ _ t t1 r1 hk h1
      obtain ⟨_, hmint, _⟩ := call_mint _ _ _ _ _ _ _ c1
      rw [hno] at hmint
      cases hmint

theorem mint_step_cannot_be_repeated (C : Crypto) (cx cx2 : ICtx) (tm minter minter2 : Bytes) (supply supply2 : Nat)
    (t t' : Tx) (hk : t.w.kind tm = some .tokenManager) (hne : minter ≠ cx.self) (hself : cx2.self = cx.self)
    (h : factoryMintStep C cx tm minter supply t = some ((), t')) :
    factoryMintStep C cx2 tm minter2 supply2 t' = none := by
  obtain ⟨_, h2, _, _, hkind, _, _⟩ := factoryMintStep_roles C cx tm minter supply t t' hk hne h
  apply mint_step_needs_the_minter_role
  · rw [hkind]; exact hk
  · rw [hself, h2]

/-- **The service itself is never accepted as the nominated minter** of a local deployment
    (with or without an initial supply): it could not hand the roles over and the mint step
    could be repeated (defect F7, repaired by the `fix:` commit named in known_findings.json). -/
theorem service_is_never_the_nominated_minter (C : Crypto) (cx : ICtx) (salt n s : Bytes) (d supply : Nat) (t : Tx) :
    factoryDeployInterchainToken C cx salt n s d supply cx.self t = none := by
  simp only [factoryDeployInterchainToken, run_bind, requireNotPaused_run]
  cases hp : t.w.its.paused
  · simp only [Bool.false_eq_true, if_false, run_getI]
    by_cases hs : supply > 0
    · simp [hs]
    · simp only [hs, if_false]
      by_cases hz : Gateway.isZeroAddr cx.self = true
      · simp [hz]
      · simp [hz]
  · simp

/-! ### Non-vacuity (test) -/
example : (TokenManager.deployTokenCallback { tokenIdentifier := [1] } (some [2])).st.tokenIdentifier = [1] := by
  decide

end Axelar.Props.C18
