/-
  C03 — Gateway signer rotation: unique epochs, well-formed sets, latest-set and delay.
  Property theorems only; helper lemmas live in Axelar/Proofs/GatewayProofs.lean.
-/
import Axelar.Proofs.GatewayProofs
namespace Axelar.Props.C03
open Axelar Axelar.Gateway Axelar.GatewaySpec Codec

theorem rotate_call_inv (C : Crypto) (st st' : State) (ctx : Ctx) (args rs : List Bytes)
    (evs : List Ev) (h : call C st ctx "rotateSigners" args = .ok (st', rs, evs)) :
    ∃ s p, args = [s, p] ∧ rotateSigners C st ctx s p = .ok (st', evs) := by
  unfold call at h
  split at h
  any_goals simp_all
  rename_i s p
  cases hm : rotateSigners C st ctx s p with
  | error e => simp [hm] at h
  | ok v =>
    obtain ⟨a, b⟩ := v
    simp only [hm] at h
    cases h
    exact ⟨s, p, ⟨rfl, rfl⟩, hm⟩

/-- **Every successful rotation**: the epoch advances by exactly one; the new set is
    well-formed; its hash had no epoch before (and entries are never removed, see
    `registered_forever`, so it was never registered); the proof came from a set inside the
    retention window; the new hash is recorded under the new epoch in both directions. -/
theorem rotation_effect (C : Crypto) (st st' : State) (ctx : Ctx) (args rs : List Bytes)
    (evs : List Ev) (h : call C st ctx "rotateSigners" args = .ok (st', rs, evs)) :
    ∃ rawSigners rawProof ws proof,
      args = [rawSigners, rawProof] ∧ top decSigners rawSigners = some ws ∧
      top decProof rawProof = some proof ∧
      wfSigners ws = true ∧
      st'.epoch = st.epoch + 1 ∧
      st.epochByHash (signersHash C ws) = 0 ∧
      st'.epochByHash (signersHash C ws) = st.epoch + 1 ∧
      st'.hashByEpoch (st.epoch + 1) = signersHash C ws ∧
      inWindow C st proof.signers = true ∧
      st'.lastRotation = ctx.now ∧ st'.operator = st.operator ∧ st'.messages = st.messages := by
  obtain ⟨s, p, rfl, hr⟩ := rotate_call_inv C st st' ctx args rs evs h
  obtain ⟨proof, ws, il, hp, hs, _, hv, _, hraw⟩ := rotateSigners_spec C st st' ctx s p evs hr
  obtain ⟨hwf, hnew, _, _, rfl, _⟩ := rotateSignersRaw_spec C st st' ctx.now ws _ evs hraw
  obtain ⟨a1, a2, _⟩ := validateProof_ok_iff_sound C st _ proof il hv
  refine ⟨s, p, ws, proof, rfl, hs, hp, hwf, rfl, hnew, by simp [upd_same], by simp [upd_same], ?_,
    rfl, rfl, rfl⟩
  simp [inWindow, a1, a2]

/-- **Ill-formed sets are always rejected** (empty, keys not strictly increasing, a zero weight,
    zero threshold, threshold above the total weight), whoever calls and whatever the proof. -/
theorem malformed_set_rejected (C : Crypto) (st : State) (ctx : Ctx) (rawSigners rawProof : Bytes)
    (ws : WeightedSigners) (hdec : top decSigners rawSigners = some ws)
    (hbad : wfSigners ws = false) :
    ∃ e, call C st ctx "rotateSigners" [rawSigners, rawProof] = .error e := by
  cases hc : call C st ctx "rotateSigners" [rawSigners, rawProof] with
  | error e => exact ⟨e, rfl⟩
  | ok v =>
    obtain ⟨st', rs, evs⟩ := v
    obtain ⟨s, p, ws', proof, ha, hs, _, hwf, _⟩ := rotation_effect C st st' ctx _ rs evs hc
    simp only [List.cons.injEq, and_true] at ha
    obtain ⟨rfl, rfl⟩ := ha
    rw [hdec] at hs; cases hs
    rw [hbad] at hwf; cases hwf

/-- **Non-operator callers**: the proof's set is the *latest* one and the minimum rotation
    delay has elapsed since the previous rotation. -/
theorem non_operator_needs_latest_and_delay (C : Crypto) (st st' : State) (ctx : Ctx)
    (args rs : List Bytes) (evs : List Ev)
    (h : call C st ctx "rotateSigners" args = .ok (st', rs, evs))
    (hno : ctx.caller ≠ st.operator) :
    ∃ rawSigners rawProof proof, args = [rawSigners, rawProof] ∧
      top decProof rawProof = some proof ∧
      st.epochByHash (signersHash C proof.signers) = st.epoch ∧
      st.lastRotation ≤ ctx.now ∧ ctx.now - st.lastRotation ≥ st.minDelay := by
  obtain ⟨s, p, rfl, hr⟩ := rotate_call_inv C st st' ctx args rs evs h
  obtain ⟨proof, ws, il, hp, hs, _, hv, hl, hraw⟩ := rotateSigners_spec C st st' ctx s p evs hr
  obtain ⟨_, _, hle, hd, _, _⟩ := rotateSignersRaw_spec C st st' ctx.now ws _ evs hraw
  obtain ⟨_, _, _, _, _, hil⟩ := validateProof_ok_iff_sound C st _ proof il hv
  have := hl hno
  rw [this] at hil
  refine ⟨s, p, proof, rfl, hp, by simpa using hil.symm, hle, hd ?_⟩
  simpa using hno

/-- **The operator** may use any registered set still inside the retention window and is not
    subject to the delay: with a complete proof from such a set and a fresh well-formed new set
    the rotation succeeds at any (monotone) time. -/
theorem operator_may_use_any_set_in_window (C : Crypto) (st : State) (ctx : Ctx)
    (rawSigners rawProof : Bytes) (ws : WeightedSigners) (proof : Proof)
    (hs : top decSigners rawSigners = some ws) (hp : top decProof rawProof = some proof)
    (hop : ctx.caller = st.operator) (hset : st.operator.isEmpty = false)
    (hwin : inWindow C st proof.signers = true) (hthr : 0 < proof.signers.threshold)
    (hlen : proof.signatures.length = proof.signers.signers.length)
    (hne : proof.signatures.isEmpty = false)
    (hall : allSuppliedValid C (proofDigest C st proof.signers tagRotateSigners rawSigners)
      proof.signers.signers proof.signatures = true)
    (hw : suppliedWeight proof.signers.signers proof.signatures ≥ proof.signers.threshold)
    (hwf : wfSigners ws = true) (hfresh : st.epochByHash (signersHash C ws) = 0)
    (htime : st.lastRotation ≤ ctx.now) :
    ∃ st' evs, call C st ctx "rotateSigners" [rawSigners, rawProof] = .ok (st', [], evs) ∧
      st'.epoch = st.epoch + 1 := by
  simp only [inWindow, Bool.and_eq_true, decide_eq_true_eq] at hwin
  have hv := validateProof_complete C st (dataHash C tagRotateSigners rawSigners) proof hwin.1 hwin.2
    hlen hne hthr hall hw
  have hval := (validateSigners_iff ws).mpr hwf
  have henf : (ctx.caller != st.operator) = false := by simp [hop]
  refine ⟨{ st with lastRotation := ctx.now, epoch := st.epoch + 1,
                     hashByEpoch := upd st.hashByEpoch (st.epoch + 1) (signersHash C ws),
                     epochByHash := upd st.epochByHash (signersHash C ws) (st.epoch + 1) },
    [⟨"signers_rotated_event", [Codec.encNat (st.epoch + 1), signersHash C ws], [encSignersTop ws]⟩],
    ?_, rfl⟩
  simp only [call, rotateSigners, hp, hs, hset, Bool.false_eq_true, if_false, hv, henf,
    Bool.false_and, rotateSignersRaw, hval]
  rw [if_neg (by omega)]
  simp [hfresh]

/-- **Outside the retention window a set authorises nothing**, for either command. -/
theorem out_of_window_rejected (C : Crypto) (st : State) (dh : Bytes) (p : Proof)
    (h : inWindow C st p.signers = false) : ∃ e, validateProof C st dh p = .error e := by
  simp only [validateProof]
  simp only [inWindow] at h
  rw [if_neg (by simpa using h)]
  exact ⟨_, rfl⟩

/-- every command goes through `validate_proof` with its own tag (shared check) -/
theorem commands_share_validation (C : Crypto) (st : State) (ctx : Ctx) (a b : Bytes) (p : Proof)
    (hp : top decProof b = some p) (h : inWindow C st p.signers = false) :
    (∃ e, call C st ctx "approveMessages" [a, b] = .error e) ∧
    (∃ e, call C st ctx "rotateSigners" [a, b] = .error e) := by
  constructor
  · cases hc : call C st ctx "approveMessages" [a, b] with
    | error e => exact ⟨e, rfl⟩
    | ok v =>
      obtain ⟨st', rs, evs⟩ := v
      obtain ⟨m, q, ha, hq⟩ := approve_call_inv C st st' ctx _ rs evs hc
      simp only [List.cons.injEq, and_true] at ha
      obtain ⟨rfl, rfl⟩ := ha
      obtain ⟨proof, msgs, bb, hp', _, _, hv, _⟩ := approveMessages_spec C st st' _ _ evs hq
      rw [hp] at hp'; cases hp'
      obtain ⟨e, he⟩ := out_of_window_rejected C st (dataHash C tagApproveMessages a) p h
      rw [he] at hv; cases hv
  · cases hc : call C st ctx "rotateSigners" [a, b] with
    | error e => exact ⟨e, rfl⟩
    | ok v =>
      obtain ⟨st', rs, evs⟩ := v
      obtain ⟨s, q, ha, hq⟩ := rotate_call_inv C st st' ctx _ rs evs hc
      simp only [List.cons.injEq, and_true] at ha
      obtain ⟨rfl, rfl⟩ := ha
      obtain ⟨proof, ws, il, hp', _, _, hv, _⟩ := rotateSigners_spec C st st' ctx _ _ evs hq
      rw [hp] at hp'; cases hp'
      obtain ⟨e, he⟩ := out_of_window_rejected C st (dataHash C tagRotateSigners a) p h
      rw [he] at hv; cases hv

/-- **Registry entries are never removed or overwritten**: once a hash has an epoch it keeps it
    through every later call (so "epoch 0" really means "never registered"). -/
theorem registered_forever (C : Crypto) (st : State) (cs : List Call) (hinv : RegInv st) (h : Bytes)
    (hreg : st.epochByHash h ≠ 0) : (run C st cs).epochByHash h = st.epochByHash h := by
  have step : ∀ st c, RegInv st → st.epochByHash h ≠ 0 →
      (stepCall C st c).epochByHash h = st.epochByHash h ∧ RegInv (stepCall C st c) := by
    intro st c hinv hreg
    unfold stepCall
    cases hc : call C st c.ctx c.func c.args with
    | error e => exact ⟨rfl, hinv⟩
    | ok v =>
      obtain ⟨st', rs, ev⟩ := v
      rcases call_cases C st c.ctx c.func c.args st' rs ev hc with
        ⟨m, p, _, _, ha⟩ | ⟨s, p, _, _, hr⟩ | ⟨chain, id, src, ph, b, _, _, _, hv, _⟩ | ⟨op, _, _, _, ht⟩ |
        ⟨_, _, op, _, ss, _, _, _, _, _, hu⟩ | rfl
      · obtain ⟨proof, msgs, b, _, _, _, _, he⟩ := approveMessages_spec C st st' m p ev ha
        have hf := approveAll_frame C st msgs []
        rw [← he] at hf
        simp only at hf
        obtain ⟨_, _, _, _, e5, _, e7, e8⟩ := hf
        exact ⟨by simp only [e8], ⟨fun h hh => by rw [e8] at hh ⊢; rw [e7, e5]; exact hinv.fwd h hh,
               fun e h1 h2 => by rw [e5] at h2; rw [e7, e8]; exact hinv.bwd e h1 h2⟩⟩
      · obtain ⟨proof, ws, il, _, _, _, _, _, hraw⟩ := rotateSigners_spec C st st' c.ctx s p ev hr
        refine ⟨?_, rotateSignersRaw_regInv C st st' _ ws _ ev hinv hraw⟩
        obtain ⟨_, hnew, _, _, rfl, _⟩ := rotateSignersRaw_spec C st st' _ ws _ ev hraw
        have : h ≠ signersHash C ws := by intro hh; rw [hh] at hreg; exact hreg hnew
        simp [upd_other _ _ _ _ this]
      · simp only [validateMessage] at hv
        split at hv <;> (cases hv; exact ⟨rfl, ⟨hinv.fwd, hinv.bwd⟩⟩)
      · unfold transferOperatorship at ht
        split at ht
        · cases ht
        · split at ht
          · split at ht
            · cases ht
            · cases ht; exact ⟨rfl, ⟨hinv.fwd, hinv.bwd⟩⟩
          · cases ht
      · -- upgrade: every set goes through the raw rotation, which refuses registered hashes
        exact upgrade_induct C c.ctx.now (fun s => s.epochByHash h = st.epochByHash h ∧ RegInv s)
          (fun s o hp => ⟨hp.1, ⟨hp.2.fwd, hp.2.bwd⟩⟩)
          (fun s s' ws e hp hr => by
            refine ⟨?_, rotateSignersRaw_regInv C s s' _ ws _ e hp.2 hr⟩
            obtain ⟨_, hnew, _, _, rfl, _⟩ := rotateSignersRaw_spec C s s' _ ws _ e hr
            have : h ≠ signersHash C ws := by
              intro hh; rw [hh] at hp hreg; rw [hp.1] at hnew; exact hreg hnew
            simp only [upd_other _ _ _ _ this]; exact hp.1)
          st op ss st' ev ⟨rfl, hinv⟩ hu
      · exact ⟨rfl, hinv⟩
  induction cs generalizing st with
  | nil => rfl
  | cons c cs ih =>
    obtain ⟨h1, h2⟩ := step st c hinv hreg
    simp only [run, List.foldl_cons]
    have := ih (stepCall C st c) h2 (by rw [h1]; exact hreg)
    simp only [run] at this
    rw [this, h1]

/-- **An upgrade registers sets under the same rules**: the owner's `upgrade(operator, sets…)` advances
    the epoch by exactly one per set; every set is well-formed, had never been registered before (and the
    sets are pairwise different, since each is registered when the next is checked) and is registered
    afterwards; nothing registered earlier loses or changes its epoch. -/
theorem upgrade_registers_only_fresh_wellformed_sets (C : Crypto) (st st' : State) (now : Nat)
    (op : Bytes) (ss : List WeightedSigners) (evs : List Ev)
    (h : upgrade C st now op ss = .ok (st', evs)) :
    st'.epoch = st.epoch + ss.length ∧
    (∀ hsh, st.epochByHash hsh ≠ 0 → st'.epochByHash hsh = st.epochByHash hsh) ∧
    (∀ ws ∈ ss, wfSigners ws = true ∧ st.epochByHash (signersHash C ws) = 0 ∧
        st'.epochByHash (signersHash C ws) ≠ 0) := by
  unfold upgrade at h
  by_cases hz : isZeroAddr op = true
  · simp only [hz, if_true] at h
    exact upgradeLoop_spec C now ss st _ st' evs h
  · simp only [hz, Bool.false_eq_true, if_false] at h
    exact upgradeLoop_spec C now ss (transferOperatorshipRaw st op).1 _ st' evs h

/-- a malformed or already registered set anywhere in the list makes the whole upgrade fail -/
theorem upgrade_with_bad_set_fails (C : Crypto) (st : State) (now : Nat) (op : Bytes)
    (ss : List WeightedSigners) (ws : WeightedSigners) (hmem : ws ∈ ss)
    (hbad : wfSigners ws = false ∨ st.epochByHash (signersHash C ws) ≠ 0) :
    ∃ e, upgrade C st now op ss = .error e := by
  cases hu : upgrade C st now op ss with
  | error e => exact ⟨e, rfl⟩
  | ok v =>
    obtain ⟨st', evs⟩ := v
    obtain ⟨_, _, h3⟩ := upgrade_registers_only_fresh_wellformed_sets C st st' now op ss evs hu
    obtain ⟨a, b, _⟩ := h3 ws hmem
    rcases hbad with h | h
    · rw [a] at h; cases h
    · exact absurd b h

/-- **Operatorship changes only at the request of the current operator or the owner.** -/
theorem operator_changes_only_by_operator_or_owner (C : Crypto) (st : State) (c : Call)
    (h : (stepCall C st c).operator ≠ st.operator) :
    (c.func = "transferOperatorship" ∨ c.func = "upgradeContract") ∧
      (c.ctx.caller = st.operator ∨ c.ctx.caller = c.ctx.owner) := by
  unfold stepCall at h
  cases hc : call C st c.ctx c.func c.args with
  | error e => simp [hc] at h
  | ok v =>
    obtain ⟨st', rs, ev⟩ := v
    simp only [hc] at h
    rcases call_cases C st c.ctx c.func c.args st' rs ev hc with
      ⟨m, p, _, _, ha⟩ | ⟨s, p, _, _, hr⟩ | ⟨chain, id, src, ph, b, _, _, _, hv, _⟩ | ⟨op, hf, _, _, ht⟩ |
      ⟨_, _, op, _, ss, hfu, _, hown, _, _, hu⟩ | rfl
    · obtain ⟨proof, msgs, b, _, _, _, _, he⟩ := approveMessages_spec C st st' m p ev ha
      have hf := approveAll_frame C st msgs []
      rw [← he] at hf
      exact absurd hf.2.2.2.1 h
    · obtain ⟨proof, ws, il, _, _, _, _, _, hraw⟩ := rotateSigners_spec C st st' c.ctx s p ev hr
      obtain ⟨_, _, _, _, rfl, _⟩ := rotateSignersRaw_spec C st st' _ ws _ ev hraw
      exact absurd rfl h
    · simp only [validateMessage] at hv
      split at hv <;> (cases hv; exact absurd rfl h)
    · refine ⟨Or.inl hf, ?_⟩
      unfold transferOperatorship at ht
      split at ht
      · cases ht
      · split at ht
        · rename_i hcond
          simpa using hcond
        · cases ht
    · exact ⟨Or.inr hfu, Or.inr hown⟩
    · exact absurd rfl h

/-- **Monotone block time keeps `lastRotation ≤ now`** (the side condition under which the
    Rust's `u64` subtraction `now - last_rotation` is exact). -/
theorem last_rotation_le_now (C : Crypto) (st : State) (c : Call) (h : st.lastRotation ≤ c.ctx.now) :
    (stepCall C st c).lastRotation ≤ c.ctx.now := by
  unfold stepCall
  cases hc : call C st c.ctx c.func c.args with
  | error e => exact h
  | ok v =>
    obtain ⟨st', rs, ev⟩ := v
    rcases call_cases C st c.ctx c.func c.args st' rs ev hc with
      ⟨m, p, _, _, ha⟩ | ⟨s, p, _, _, hr⟩ | ⟨chain, id, src, ph, b, _, _, _, hv, _⟩ | ⟨op, hf, _, _, ht⟩ |
      ⟨_, _, op, _, ss, _, _, _, _, _, hu⟩ | rfl
    · obtain ⟨proof, msgs, b, _, _, _, _, he⟩ := approveMessages_spec C st st' m p ev ha
      have hf := approveAll_frame C st msgs []
      rw [← he] at hf
      simp only at hf ⊢
      rw [hf.2.2.2.2.2.1]; exact h
    · obtain ⟨proof, ws, il, _, _, _, _, _, hraw⟩ := rotateSigners_spec C st st' c.ctx s p ev hr
      obtain ⟨_, _, _, _, rfl, _⟩ := rotateSignersRaw_spec C st st' _ ws _ ev hraw
      exact Nat.le_refl _
    · simp only [validateMessage] at hv
      split at hv <;> (cases hv; exact h)
    · unfold transferOperatorship at ht
      split at ht
      · cases ht
      · split at ht
        · split at ht
          · cases ht
          · cases ht; exact h
        · cases ht
    · exact upgrade_induct C c.ctx.now (fun s => s.lastRotation ≤ c.ctx.now) (fun s o hp => hp)
        (fun s s' ws e hp hr => by
          obtain ⟨_, _, _, _, rfl, _⟩ := rotateSignersRaw_spec C s s' _ ws _ e hr; exact Nat.le_refl _)
        st op ss st' ev h hu
    · exact h

/-! ### Non-vacuity (tests) -/
example : wfSigners ⟨[⟨[1], 2⟩, ⟨[2], 3⟩], 4, []⟩ = true := by decide
example : wfSigners ⟨[⟨[2], 2⟩, ⟨[1], 3⟩], 4, []⟩ = false := by decide
example : wfSigners ⟨[⟨[1], 2⟩, ⟨[2], 3⟩], 6, []⟩ = false := by decide

end Axelar.Props.C03
