/-
  C02 — Gateway message lifecycle is monotone and each message validates at most once.
  Property theorems only; helper lemmas live in Axelar/Proofs/GatewayProofs.lean.
-/
import Axelar.Proofs.GatewayProofs
import Axelar.Proofs.BytesLemmas
import Axelar.Proofs.GwHistory
namespace Axelar.Props.C02
open Axelar Axelar.Gateway Axelar.GatewaySpec Codec

/-- **Monotone lifecycle, one step.** Whatever endpoint is called, by whomever, with whatever
    arguments, every message entry either stays as it is, or moves non-existent → approved, or
    approved → executed. -/
theorem step_lifecycle (C : Crypto) (st : State) (c : Call) (k : Bytes × Bytes) :
    Trans (st.messages k) ((stepCall C st c).messages k) :=
  stepCall_trans C st c k

/-- **Monotone lifecycle, all histories**: ranks never decrease, an approval hash is never
    replaced by another one, executed is absorbing. -/
theorem history_lifecycle (C : Crypto) (st : State) (cs : List Call) (k : Bytes × Bytes) :
    rank (st.messages k) ≤ rank ((run C st cs).messages k) ∧
    (∀ h, st.messages k = .approved h →
        (run C st cs).messages k = .approved h ∨ (run C st cs).messages k = .executed) ∧
    (st.messages k = .executed → (run C st cs).messages k = .executed) := by
  induction cs generalizing st with
  | nil => exact ⟨Nat.le_refl _, fun h hh => Or.inl hh, id⟩
  | cons c cs ih =>
    have ht := stepCall_trans C st c k
    obtain ⟨i1, i2, i3⟩ := ih (stepCall C st c)
    simp only [run, List.foldl_cons] at i1 i2 i3 ⊢
    refine ⟨Nat.le_trans ht.rank_le i1, ?_, ?_⟩
    · intro h hh
      rw [hh] at ht
      rcases ht.approved with h1 | h1
      · exact i2 h h1
      · exact Or.inr (i3 h1)
    · intro hh
      rw [hh] at ht
      exact i3 ht.executed

/-- **An approval batch never touches an existing entry**, even when it carries different
    contents for that id (and even for duplicates inside the batch: the first one wins). -/
theorem approvals_leave_existing_untouched (C : Crypto) (st st' : State) (ctx : Ctx)
    (args rs : List Bytes) (evs : List Ev) (k : Bytes × Bytes)
    (h : call C st ctx "approveMessages" args = .ok (st', rs, evs))
    (hex : st.messages k ≠ .nonExistent) : st'.messages k = st.messages k := by
  obtain ⟨m, p, rfl, ha⟩ := approve_call_inv C st st' ctx args rs evs h
  obtain ⟨proof, msgs, b, _, _, _, _, he⟩ := approveMessages_spec C st st' m p evs ha
  have := approveAll_trans C st msgs [] k
  rw [← he] at this
  rcases this with h1 | ⟨h2, _⟩
  · exact h1
  · exact absurd h2 hex

/-- **Validation**: returns true exactly when the entry is the approval whose hash binds this
    source address, this payload hash and *the caller* as destination contract; then the entry
    becomes executed; otherwise nothing changes and no event is emitted. -/
theorem validate_characterisation (C : Crypto) (st : State) (caller chain id src ph : Bytes) :
    let r := validateMessage C st caller chain id src ph
    (r.2.1 = true ↔ st.messages (chain, id) = .approved (messageHash C chain id src caller ph)) ∧
    (r.2.1 = true → r.1.messages (chain, id) = .executed ∧
        ∀ k, k ≠ (chain, id) → r.1.messages k = st.messages k) ∧
    (r.2.1 = false → r.1 = st ∧ r.2.2 = []) := by
  have hs := validateMessage_spec C st caller chain id src ph
  simp only at hs ⊢
  refine ⟨hs.1, fun ht => ?_, hs.2.2⟩
  rw [hs.2.1 ht]
  exact ⟨by simp [upd_same], fun k hk => by simp [upd_other _ _ _ _ hk]⟩

/-- number of `validateMessage` calls for message `k` that returned true along a history -/
def trueValidations (C : Crypto) (k : Bytes × Bytes) : State → List Call → Nat
  | _, [] => 0
  | st, c :: cs =>
    (match c.func, c.args with
      | "validateMessage", [chain, id, _, _] =>
        if (chain, id) = k ∧ results C st c = some [encBool true] then 1 else 0
      | _, _ => 0) + trueValidations C k (stepCall C st c) cs

theorem encBool_inj (a b : Bool) (h : encBool a = encBool b) : a = b := by
  cases a <;> cases b <;> simp [encBool] at h ⊢

/-- a `validateMessage` call that returned true found the matching approval and executed it -/
theorem true_result (C : Crypto) (st : State) (c : Call) (chain id src ph : Bytes)
    (hf : c.func = "validateMessage") (ha : c.args = [chain, id, src, ph])
    (hres : results C st c = some [encBool true]) :
    st.messages (chain, id) = .approved (messageHash C chain id src c.ctx.caller ph) ∧
    (stepCall C st c).messages (chain, id) = .executed := by
  unfold results at hres
  unfold stepCall
  cases hcall : call C st c.ctx c.func c.args with
  | error e => simp [hcall] at hres
  | ok v =>
    obtain ⟨st', rs, evs⟩ := v
    simp only [hcall, Option.some.injEq] at hres
    subst hres
    rw [hf] at hcall
    obtain ⟨chain', id', src', ph', ha', _, hv, hrs⟩ := validate_call_inv C st st' c.ctx _ _ evs hcall
    rw [ha] at ha'
    simp only [List.cons.injEq, and_true] at ha'
    obtain ⟨rfl, rfl, rfl, rfl⟩ := ha'
    have ht : (validateMessage C st c.ctx.caller chain id src ph).2.1 = true := by
      simp only [List.cons.injEq, and_true] at hrs
      exact (encBool_inj _ _ hrs).symm
    have hs := validateMessage_spec C st c.ctx.caller chain id src ph
    simp only at hs
    refine ⟨hs.1.mp ht, ?_⟩
    have h1 := hs.2.1 ht
    rw [hv] at h1
    have h1' : st' = { st with messages := upd st.messages (chain, id) .executed } := h1
    show st'.messages (chain, id) = .executed
    rw [h1']; exact upd_same _ _ _

theorem no_true_after_executed (C : Crypto) (k : Bytes × Bytes) (st : State) (cs : List Call)
    (hex : st.messages k = .executed) : trueValidations C k st cs = 0 := by
  induction cs generalizing st with
  | nil => rfl
  | cons c cs ih =>
    have hnext : (stepCall C st c).messages k = .executed := by
      have := stepCall_trans C st c k; rw [hex] at this; exact this.executed
    simp only [trueValidations, ih _ hnext, Nat.add_zero]
    split
    · rename_i chain id src ph hf ha
      split
      · rename_i hc
        obtain ⟨rfl, hres⟩ := hc
        have := (true_result C st c chain id src ph hf ha hres).1
        rw [this] at hex; cases hex
      · rfl
    · rfl

/-- **At most one successful validation per message, over every history.** -/
theorem validates_at_most_once (C : Crypto) (k : Bytes × Bytes) (st : State) (cs : List Call) :
    trueValidations C k st cs ≤ 1 := by
  induction cs generalizing st with
  | nil => simp [trueValidations]
  | cons c cs ih =>
    simp only [trueValidations]
    split
    · rename_i chain id src ph hf ha
      split
      · rename_i hc
        obtain ⟨rfl, hres⟩ := hc
        -- this call returned true, so the entry is executed afterwards: no later success
        have hexec := (true_result C st c chain id src ph hf ha hres).2
        rw [no_true_after_executed C _ _ cs hexec]
        exact Nat.le_refl 1
      · have := ih (stepCall C st c); omega
    · have := ih (stepCall C st c); omega

/-- **Views agree with the state** (by definition of the views; the correspondence check
    compares them with the real views after every operation). -/
theorem views_agree (C : Crypto) (st : State) (chain id src ca ph : Bytes) :
    (isMessageExecuted st chain id = true ↔ st.messages (chain, id) = .executed) ∧
    (isMessageApproved C st chain id src ca ph = true ↔
      st.messages (chain, id) = .approved (messageHash C chain id src ca ph)) := by
  simp [isMessageExecuted, isMessageApproved]

/-- `message_hash` binds id, source address, destination contract and payload hash
    (collision-or-equal; the two last fields are fixed-width, the others length-prefixed). -/
theorem messageHash_binding (C : Crypto) (c i s a p c' i' s' a' p' : Bytes)
    (hc : c.length < 2 ^ 32) (hi : i.length < 2 ^ 32) (hs : s.length < 2 ^ 32)
    (hc' : c'.length < 2 ^ 32) (hi' : i'.length < 2 ^ 32) (hs' : s'.length < 2 ^ 32)
    (ha : a.length = a'.length)
    (h : messageHash C c i s a p = messageHash C c' i' s' a' p') :
    (c = c' ∧ i = i' ∧ s = s' ∧ a = a' ∧ p = p') ∨ ∃ x y, x ≠ y ∧ C.H x = C.H y := by
  unfold messageHash at h
  by_cases he : encMessageKey c i s a p = encMessageKey c' i' s' a' p'
  · left
    unfold encMessageKey at he
    simp only [List.append_assoc] at he
    obtain ⟨e1, he1⟩ := nestBuf_append_inj _ _ _ _ hc hc' he
    obtain ⟨e2, he2⟩ := nestBuf_append_inj _ _ _ _ hi hi' he1
    obtain ⟨e3, he3⟩ := nestBuf_append_inj _ _ _ _ hs hs' he2
    obtain ⟨e4, e5⟩ := List.append_inj he3 ha
    subst e1 e2 e3 e4 e5
    exact ⟨rfl, rfl, rfl, rfl, rfl⟩
  · right; exact ⟨_, _, he, h⟩

/-- storage codec keeps the three states apart (for 32-byte hashes) -/
theorem state_codec_roundtrip (s : MsgState)
    (h : ∀ x, s = .approved x → x.length = 32) : decodeState (encodeState s) = some s := by
  cases s with
  | nonExistent => decide
  | executed => decide
  | approved x =>
    have hl := h x rfl
    have hne : x ≠ [] := by intro hx; rw [hx] at hl; simp at hl
    have hne2 : x ≠ Generated.messageExecuted := by
      intro hx; rw [hx] at hl; simp [Generated.messageExecuted] at hl
    simp [decodeState, encodeState, hl, hne, hne2]

/-! ### In the whole world -/

/-- **The life cycle survives composition with every other contract**: in the world where the
    token service, governance, token managers and the gas service call the gateway (validation
    inside their own transactions, asynchronous steps delivered in any order), every operation
    of every schedule leaves an executed message executed and replaces an approval only by
    `executed`. -/
theorem lifecycle_in_the_whole_world (C : Crypto) (w : World) (ops : List World.Op) (k : Bytes × Bytes) :
    (w.gw.messages k = .executed → (World.run C w ops).gw.messages k = .executed) ∧
    (∀ h, w.gw.messages k = .approved h →
      (World.run C w ops).gw.messages k = .approved h ∨ (World.run C w ops).gw.messages k = .executed) :=
  World.run_life C ops w k

/-! ### Non-vacuity (test) -/
example : Trans .nonExistent (.approved [1]) ∧ Trans (.approved [1]) .executed :=
  ⟨Or.inr (Or.inl ⟨rfl, _, rfl⟩), Or.inr (Or.inr ⟨_, rfl, rfl⟩)⟩

end Axelar.Props.C02
