/-
  C18 at chain level — an inbound deploy-token message as TRANSACTIONS of the composed world: every successful `execute`
  transaction for such a message needed the gateway approval of exactly this message; the first one (no manager yet) leaves
  the gateway untouched, the second one (manager present) leaves the message executed; and once it is executed, in every
  world any history leads to, no `execute` transaction for it succeeds — one issuance per message.
-/
import Axelar.Props.C18
import Axelar.Props.C08Ops
namespace Axelar.Props.C18
open Axelar Axelar.ItsW Axelar.Its Codec

/-- an `execute` of a deploy-token message runs `process_deploy_interchain_token_payload` on the unwrapped payload -/
theorem execute_reaches_the_deployment (C : Crypto) (cx : ICtx) (sc mid sa payload : Bytes) (t t' : Tx)
    (oc inner : Bytes)
    (hg : getExecuteParams t.w.its sc payload = some (Generated.MESSAGE_TYPE_DEPLOY_INTERCHAIN_TOKEN, oc, inner))
    (h : execute C cx sc mid sa payload t = some ((), t')) :
    processDeployInterchainToken C cx sc mid sa (C.H payload) inner t = some ((), t') := by
  simp only [execute, run_bind, run_require, requireNotPaused_run, run_getI] at h
  by_cases he : cx.esdt.isEmpty = true
  · simp only [he, if_true] at h
    cases hp : t.w.its.paused
    · simp only [hp, Bool.false_eq_true, if_false] at h
      by_cases ht : isTrustedAddress t.w.its sc sa = true
      · have hne : (Generated.MESSAGE_TYPE_DEPLOY_INTERCHAIN_TOKEN == Generated.MESSAGE_TYPE_INTERCHAIN_TRANSFER) = false := by
          decide
        simp only [ht, if_true, hg, hne, Bool.false_eq_true, if_false, beq_self_eq_true] at h
        exact h
      · simp [ht] at h
    · simp [hp] at h
  · simp [he] at h

/-- **A deploy-token message, one transaction**: it needed the approval of exactly this message addressed to the service;
    with no manager for the token id yet the gateway is left untouched (the approval is NOT consumed), with a manager present
    the message is executed afterwards. -/
theorem deploy_message_transaction (C : Crypto) (w w' : World) (sender its sc mid sa payload : Bytes) (egld : Nat)
    (rs : List Bytes) (evs : List Event) (pd : List PendDesc) (oc inner : Bytes) (d : Abi.Deploy)
    (hk : w.kind its = some .its) (hkgw : w.kind w.its.gateway = some .gateway)
    (hg : getExecuteParams w.its sc payload = some (Generated.MESSAGE_TYPE_DEPLOY_INTERCHAIN_TOKEN, oc, inner))
    (hd : Abi.Deploy.decode inner = .ok d)
    (h : World.tx C w sender its "execute" egld [] [sc, mid, sa, payload] = (w', .ok rs evs pd)) :
    w.gw.messages (sc, mid) = .approved (Gateway.messageHash C sc mid sa its (C.H payload)) ∧
    ((w.its.tmAddress d.tokenId = [] ∧ w'.gw = w.gw) ∨
     (w.its.tmAddress d.tokenId ≠ [] ∧ w'.gw.messages (sc, mid) = .executed)) := by
  obtain ⟨w1, tt, _, hb, he, rfl, _⟩ := Axelar.Props.C08.tx_execute_paid C w w' sender its sc mid sa payload egld rs evs pd hk h
  have e1 : w1.its = w.its := by rw [hb]
  have e2 : w1.gw = w.gw := hb.gw
  have e3 : w1.kind = w.kind := hb.kind
  have hp := execute_reaches_the_deployment C (World.itsCtx w1 sender its egld []) sc mid sa payload { w := w1 } tt oc inner
    (by show getExecuteParams w1.its sc payload = _; rw [e1]; exact hg) he
  have := deploy_message_step C (World.itsCtx w1 sender its egld []) sc mid sa (C.H payload) inner { w := w1 } tt d hd
    (by show w1.kind w1.its.gateway = _; rw [e1, e3]; exact hkgw) hp
  simp only [e1, e2] at this
  exact this

/-- **One issuance per message, over whole transactions and every history**: once the message is executed, after ANY list
    of operations of the composed world no `execute` transaction for it (with or without EGLD attached) — any sender, source address or
    deploy payload — succeeds. -/
theorem executed_deploy_message_refused_in_every_history (C : Crypto) (w : World) (ops : List World.Op)
    (sender its sc mid sa payload oc inner : Bytes) (egld : Nat) (d : Abi.Deploy)
    (hex : w.gw.messages (sc, mid) = .executed)
    (hk : (World.run C w ops).kind its = some .its)
    (hkgw : (World.run C w ops).kind (World.run C w ops).its.gateway = some .gateway)
    (hg : getExecuteParams (World.run C w ops).its sc payload =
      some (Generated.MESSAGE_TYPE_DEPLOY_INTERCHAIN_TOKEN, oc, inner))
    (hd : Abi.Deploy.decode inner = .ok d)
    (w' : World) (rs : List Bytes) (evs : List Event) (pd : List PendDesc) :
    World.tx C (World.run C w ops) sender its "execute" egld [] [sc, mid, sa, payload] ≠ (w', .ok rs evs pd) := by
  intro h
  have := (deploy_message_transaction C (World.run C w ops) w' sender its sc mid sa payload egld rs evs pd oc inner d hk hkgw
    hg hd h).1
  rw [(World.run_life C ops w (sc, mid)).1 hex] at this
  cases this

/-! ### Non-vacuity (test): the two message types are distinct selectors -/
example : (Generated.MESSAGE_TYPE_DEPLOY_INTERCHAIN_TOKEN == Generated.MESSAGE_TYPE_INTERCHAIN_TRANSFER) = false := by decide

end Axelar.Props.C18
