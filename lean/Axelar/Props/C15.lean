/-
  C15 — Gas service custody: exact receipts, collector-only withdrawal, conservation.
-/
import Axelar.Model.GasService
namespace Axelar.Props.C15
open Axelar Axelar.GasService Codec

/-- total amount of token `t` in a list of sends -/
def outflow (sends : List Send) (t : Tok) : Nat :=
  (sends.map fun s => if s.tok = t then s.amount else 0).sum

/-- balance after crediting an incoming payment -/
def credit (bal : Tok → Nat) (egld : Nat) (esdt : List (Bytes × Nat × Nat)) : Tok → Nat :=
  fun t => bal t + (match t with | none => egld | some _ => 0) +
    (esdt.map fun (tok, _, amt) => if some tok = t then amt else 0).sum

theorem outflow_append (a b : List Send) (t : Tok) : outflow (a ++ b) t = outflow a t + outflow b t := by
  simp [outflow]

/-! ### outflows: who, to whom, how much -/

theorem collectLoop_spec (receiver : Bytes) (items : List (Tok × Nat)) (bal : Tok → Nat)
    (acc sends : List Send) (h : collectLoop receiver items bal acc = .ok sends) :
    (∀ t, outflow sends t ≤ outflow acc t + bal t) ∧
    (∀ s ∈ sends, s ∈ acc ∨ (s.to = receiver ∧ (s.tok, s.amount) ∈ items ∧ 0 < s.amount)) ∧
    (∀ it ∈ items, 0 < it.2) := by
  induction items generalizing bal acc with
  | nil =>
    simp only [collectLoop, Except.ok.injEq] at h
    subst h
    exact ⟨fun t => Nat.le_add_right _ _, fun s hs => Or.inl hs, fun it hit => by simp at hit⟩
  | cons it items ih =>
    obtain ⟨tok, amt⟩ := it
    simp only [collectLoop] at h
    by_cases h0 : amt = 0
    · simp [h0] at h
    · simp only [h0, if_false] at h
      by_cases hle : amt ≤ bal tok
      · simp only [hle, if_true] at h
        obtain ⟨i1, i2, i3⟩ := ih _ _ h
        refine ⟨fun t => ?_, fun s hs => ?_, fun it hit => ?_⟩
        · have := i1 t
          rw [outflow_append] at this
          have e1 : outflow [⟨receiver, tok, amt⟩] t = if tok = t then amt else 0 := by simp [outflow]
          have e2 : upd bal tok (bal tok - amt) t = if t = tok then bal tok - amt else bal t := rfl
          rw [e1, e2] at this
          by_cases ht : tok = t
          · subst ht; simp only [if_true] at this; omega
          · have hne : ¬ t = tok := fun e => ht e.symm
            simp only [ht, hne, if_false] at this; omega
        · rcases i2 s hs with h1 | ⟨h1, h2, h3⟩
          · rcases List.mem_append.mp h1 with h1 | h1
            · exact Or.inl h1
            · simp only [List.mem_singleton] at h1; subst h1
              exact Or.inr ⟨rfl, by simp, Nat.pos_of_ne_zero h0⟩
          · exact Or.inr ⟨h1, List.mem_cons_of_mem _ h2, h3⟩
        · rcases List.mem_cons.mp hit with rfl | h1
          · simp; omega
          · exact i3 _ h1
      · simp only [hle, if_false] at h
        obtain ⟨i1, i2, i3⟩ := ih _ _ h
        refine ⟨i1, fun s hs => ?_, fun it hit => ?_⟩
        · rcases i2 s hs with h1 | ⟨h1, h2, h3⟩
          · exact Or.inl h1
          · exact Or.inr ⟨h1, List.mem_cons_of_mem _ h2, h3⟩
        · rcases List.mem_cons.mp hit with rfl | h1
          · simp; omega
          · exact i3 _ h1

theorem collectFees_ok (st : State) (ctx : Ctx) (args : List Bytes) (out : Out)
    (h : collectFees st ctx args = .ok out) (_hs : out.sends ≠ []) :
    ("collectFees" = "collectFees" ∨ "collectFees" = "refund") ∧ ctx.caller = st.collector ∧
    (∀ s ∈ out.sends, Gateway.isZeroAddr s.to = false) ∧
    (∀ t, outflow out.sends t ≤ ctx.balance t) ∧ out.st = st := by
  simp only [collectFees] at h
  split at h
  · cases h
  · split at h
    · rename_i receiver rest
      split at h
      · rename_i receiver' toks rest2 _ _
        split at h
        · rename_i amts _
          by_cases hc : (ctx.caller != st.collector) = true
          · simp [hc] at h
          · simp only [hc, Bool.false_eq_true, if_false] at h
            by_cases hz : Gateway.isZeroAddr receiver' = true
            · simp [hz] at h
            · simp only [hz, Bool.false_eq_true, if_false] at h
              by_cases hl : (toks.length != amts.length) = true
              · simp [hl] at h
              · simp only [hl, Bool.false_eq_true, if_false] at h
                split at h
                · rename_i sends hloop
                  cases h
                  obtain ⟨i1, i2, _⟩ := collectLoop_spec _ _ _ _ _ hloop
                  refine ⟨Or.inl rfl, by simpa using hc, fun s hs' => ?_,
                    fun t => by simpa [outflow] using i1 t, rfl⟩
                  rcases i2 s hs' with h1 | ⟨h1, _, _⟩
                  · simp at h1
                  · rw [h1]; simpa using hz
                · cases h
        · cases h
      · cases h
    · cases h

theorem refund_ok (st : State) (ctx : Ctx) (args : List Bytes) (out : Out)
    (h : refund st ctx args = .ok out) (_hs : out.sends ≠ []) :
    ("refund" = "collectFees" ∨ "refund" = "refund") ∧ ctx.caller = st.collector ∧
    (∀ s ∈ out.sends, Gateway.isZeroAddr s.to = false) ∧
    (∀ t, outflow out.sends t ≤ ctx.balance t) ∧ out.st = st := by
  simp only [refund] at h
  split at h
  · cases h
  · split at h
    · rename_i txHash logIndex receiver token amount
      split at h
      · rename_i receiver' _
        by_cases hc : (ctx.caller != st.collector) = true
        · simp [hc] at h
        · simp only [hc, Bool.false_eq_true, if_false] at h
          by_cases hz : Gateway.isZeroAddr receiver' = true
          · simp [hz] at h
          · simp only [hz, Bool.false_eq_true, if_false] at h
            by_cases hle : topBig amount ≤ ctx.balance (tokOfBytes token)
            · simp only [hle, if_true] at h
              cases h
              refine ⟨Or.inr rfl, by simpa using hc, fun s hs' => ?_, fun t => ?_, rfl⟩
              · simp only [List.mem_singleton] at hs'; subst hs'; simpa using hz
              · simp only [outflow, List.map_cons, List.map_nil, List.sum_cons, List.sum_nil, Nat.add_zero]
                split
                · rename_i ht; subst ht; exact hle
                · omega
            · simp [hle] at h
      · cases h
    · cases h

/-- **Funds leave only through `collectFees` / `refund`, only when the caller is the current
    collector, only to a non-zero receiver, and never more than the balance.** -/
theorem outflow_only_by_collector (C : Crypto) (st : State) (ctx : Ctx) (func : String)
    (args : List Bytes) (out : Out) (h : call C st ctx func args = .ok out)
    (hs : out.sends ≠ []) :
    (func = "collectFees" ∨ func = "refund") ∧ ctx.caller = st.collector ∧
    (∀ s ∈ out.sends, Gateway.isZeroAddr s.to = false) ∧
    (∀ t, outflow out.sends t ≤ ctx.balance t) ∧ out.st = st := by
  unfold call at h
  split at h
  all_goals first
    | (simp only [payEsdt, payNative, addEsdt, addNative] at h
       repeat' (first | (cases h; done) | (split at h))
       all_goals (first | (cases h; simp at hs) | skip))
    | skip
  · exact collectFees_ok st ctx args out h hs
  · exact refund_ok st ctx args out h hs
  · -- setGasCollector
    simp only [setGasCollector] at h
    repeat' (first | (cases h; done) | (split at h))
    all_goals (first | (cases h; simp at hs) | skip)
  · repeat' (first | (cases h; done) | (split at h))
    all_goals (first | (cases h; simp at hs) | skip)
  · -- upgradeContract: nothing is sent
    repeat' (first | (cases h; done) | (split at h))
    all_goals (first | (cases h; simp at hs) | skip)
  · cases h

/-- **The collector is replaced only by the collector or the owner.** -/
theorem collector_changes_only_by_collector_or_owner (C : Crypto) (st : State) (ctx : Ctx)
    (func : String) (args : List Bytes) (out : Out) (h : call C st ctx func args = .ok out)
    (hne : out.st.collector ≠ st.collector) :
    func = "setGasCollector" ∧ (ctx.caller = st.collector ∨ ctx.caller = ctx.owner) := by
  unfold call at h
  split at h
  all_goals first
    | (simp only [payEsdt, payNative, addEsdt, addNative, collectFees, refund] at h
       repeat' (first | (cases h; done) | (split at h))
       all_goals (first | (cases h; exact absurd rfl hne) | skip))
    | skip
  · simp only [setGasCollector] at h
    repeat' (first | (cases h; done) | (split at h))
    rename_i hc
    exact ⟨rfl, by simpa using hc⟩
  · repeat' (first | (cases h; done) | (split at h))
    all_goals (first | (cases h; exact absurd rfl hne) | skip)
  · -- upgradeContract: the collector stays
    repeat' (first | (cases h; done) | (split at h))
    all_goals (first | (cases h; exact absurd rfl hne) | skip)
  · cases h

/-- **Every accepted payment / top-up carries a non-zero amount of exactly one token and emits
    exactly one event built from what was actually received.** -/
theorem esdt_payment_event (C : Crypto) (st : State) (ctx : Ctx) (name : String) (args : List Bytes)
    (out : Out) (h : payEsdt C st ctx name args = .ok out) :
    ∃ sender chain addr payload refund tok amt,
      args = [sender, chain, addr, payload, refund] ∧ ctx.esdt = [(tok, 0, amt)] ∧ ctx.egld = 0 ∧
      0 < amt ∧ out.sends = [] ∧ out.st = st ∧
      out.events = [⟨name, [sender, chain, addr], [gasPaidData (C.H payload) tok amt refund]⟩] := by
  simp only [payEsdt] at h
  split at h
  · rename_i sender chain addr payload refund
    split at h
    · rename_i sender' refund' hs hr
      have e1 : sender' = sender := by unfold topFixed at hs; split at hs <;> simp_all
      have e2 : refund' = refund := by unfold topFixed at hr; split at hr <;> simp_all
      subst e1 e2
      split at h
      · cases h
      · rename_i tok amt hsf
        split at h
        · cases h
        · rename_i hamt
          cases h
          simp only [singleFungibleEsdt] at hsf
          split at hsf
          · rename_i tok' amt' hes
            split at hsf
            · rename_i heg
              cases hsf
              exact ⟨sender', chain, addr, payload, refund', _, _, rfl, hes, heg, by omega, rfl, rfl, rfl⟩
            · cases hsf
          · cases hsf
    · cases h
  · cases h

theorem native_payment_event (C : Crypto) (st : State) (ctx : Ctx) (name : String) (args : List Bytes)
    (out : Out) (h : payNative C st ctx name args = .ok out) :
    ∃ sender chain addr payload refund,
      args = [sender, chain, addr, payload, refund] ∧ ctx.esdt = [] ∧ 0 < ctx.egld ∧
      out.sends = [] ∧ out.st = st ∧
      out.events = [⟨name, [sender, chain, addr], [nativeGasPaidData (C.H payload) ctx.egld refund]⟩] := by
  simp only [payNative] at h
  split at h
  · rename_i sender chain addr payload refund
    split at h
    · rename_i sender' refund' hs hr
      have e1 : sender' = sender := by unfold topFixed at hs; split at hs <;> simp_all
      have e2 : refund' = refund := by unfold topFixed at hr; split at hr <;> simp_all
      subst e1 e2
      split at h
      · cases h
      · rename_i v hv
        split at h
        · cases h
        · rename_i hamt
          cases h
          simp only [egldValue] at hv
          split at hv
          · rename_i hes
            cases hv
            exact ⟨sender', chain, addr, payload, refund', rfl, by simpa using hes, by omega, rfl, rfl, rfl⟩
          · cases hv
    · cases h
  · cases h

/-! ### conservation over all histories -/

structure GCall where
  caller : Bytes
  owner : Bytes
  egld : Nat
  esdt : List (Bytes × Nat × Nat)
  func : String
  args : List Bytes

/-- the service with its balances and two ghost counters: everything received, everything sent -/
structure Ledger where
  st : State
  bal : Tok → Nat
  received : Tok → Nat
  paidOut : Tok → Nat

/-- one transaction: the payment is credited, the endpoint runs, its sends are debited; a
    failing transaction changes nothing -/
def lstep (C : Crypto) (l : Ledger) (c : GCall) : Ledger :=
  let bal1 := credit l.bal c.egld c.esdt
  match call C l.st ⟨c.caller, c.owner, c.egld, c.esdt, bal1⟩ c.func c.args with
  | .ok out =>
    { st := out.st, bal := fun t => bal1 t - outflow out.sends t,
      received := credit l.received c.egld c.esdt,
      paidOut := fun t => l.paidOut t + outflow out.sends t }
  | .error _ => l

def lrun (C : Crypto) (l : Ledger) (cs : List GCall) : Ledger := cs.foldl (lstep C) l

/-- **Conservation.** For every history, for every token: balance = initial balance + all
    receipts − all collections and refunds. -/
theorem conservation (C : Crypto) (st : State) (bal0 : Tok → Nat) (cs : List GCall) (t : Tok) :
    let l := lrun C ⟨st, bal0, fun _ => 0, fun _ => 0⟩ cs
    l.bal t + l.paidOut t = bal0 t + l.received t := by
  have step : ∀ (l : Ledger) (c : GCall), l.bal t + l.paidOut t = bal0 t + l.received t →
      (lstep C l c).bal t + (lstep C l c).paidOut t = bal0 t + (lstep C l c).received t := by
    intro l c hinv
    unfold lstep
    simp only
    cases hc : call C l.st ⟨c.caller, c.owner, c.egld, c.esdt, credit l.bal c.egld c.esdt⟩ c.func c.args with
    | error e => exact hinv
    | ok out =>
      simp only
      have hle : outflow out.sends t ≤ credit l.bal c.egld c.esdt t := by
        by_cases hs : out.sends = []
        · simp [hs, outflow]
        · exact (outflow_only_by_collector C _ _ _ _ out hc hs).2.2.2.1 t
      simp only [credit] at hle ⊢
      omega
  have all : ∀ (cs : List GCall) (l : Ledger), l.bal t + l.paidOut t = bal0 t + l.received t →
      (lrun C l cs).bal t + (lrun C l cs).paidOut t = bal0 t + (lrun C l cs).received t := by
    intro cs
    induction cs with
    | nil => intro l h; exact h
    | cons c cs ih => intro l h; exact ih (lstep C l c) (step l c h)
  exact all cs _ (by simp)

/-! ### Non-vacuity (tests) -/
example : collectLoop [9] [(none, 5), (some [1], 7), (none, 3)] (fun t => if t = none then 6 else 7) [] =
    .ok [⟨[9], none, 5⟩, ⟨[9], some [1], 7⟩] := by rfl

end Axelar.Props.C15
