/-
  C17 — ITS never strands user value when an asynchronous step does not go through.
  Full strength does NOT hold on the unchanged code (finding F2): see `…_strands_gas`.
-/
import Axelar.Proofs.Balances
import Axelar.Proofs.ItsLedger
namespace Axelar.Props.C17
open Axelar Axelar.ItsW Axelar.Its Codec

/-- **Error or non-fungible reply: the gas value goes back to the original caller** and nothing
    else happens (no event, no message, service storage untouched). -/
theorem refund_on_error_or_non_fungible (C : Crypto) (cx : ICtx) (tok : Bytes) (gas : Nat) (caller : Bytes)
    (ok : Bool) (vals : List Bytes) (t : Tx)
    (h : ok = false ∨ parseTokenProperties vals = some none) :
    registerTokenMetadataCallback C cx tok gas caller ok vals t = refundGas cx caller gas t := by
  rcases h with h | h
  · simp [registerTokenMetadataCallback, h]
  · cases ok <;> simp [registerTokenMetadataCallback, h]

theorem refund_on_error_or_non_fungible_deploy (C : Crypto) (cx : ICtx) (salt chain sym dm : Bytes) (gas : Nat)
    (caller : Bytes) (ok : Bool) (vals : List Bytes) (t : Tx)
    (h : ok = false ∨ parseTokenProperties vals = some none) :
    deployRemoteTokenCallback C cx salt chain sym dm gas caller ok vals t = refundGas cx caller gas t := by
  rcases h with h | h
  · simp [deployRemoteTokenCallback, h]
  · cases ok <;> simp [deployRemoteTokenCallback, h]

/-- the refund moves exactly `gas` EGLD from the service to the caller (or nothing for zero) -/
theorem refund_exact (cx : ICtx) (caller : Bytes) (gas : Nat) (t t' : Tx)
    (h : refundGas cx caller gas t = some ((), t')) :
    (gas = 0 ∧ t' = t) ∨
    (0 < gas ∧ World.send t.w cx.self caller none gas = some t'.w ∧ t'.evs = t.evs ∧ t'.pend = t.pend) := by
  unfold refundGas at h
  split at h
  · rename_i h0; cases h; exact Or.inl ⟨h0, rfl⟩
  · rename_i h0
    split at h
    · rename_i w' hs
      cases h
      exact Or.inr ⟨by omega, hs, rfl, rfl⟩
    · cases h

/-- **FINDING F2 (metadata).**  For a fungible reply, when the hub's trusted address is unset
    at callback time the callback transaction FAILS, whatever the gas value — so the EGLD taken
    by the first transaction stays in the service. -/
theorem metadata_callback_with_hub_unset_strands_gas (C : Crypto) (cx : ICtx) (tok : Bytes) (gas : Nat)
    (caller : Bytes) (vals : List Bytes) (name : Bytes) (dec : Nat) (t : Tx)
    (hp : parseTokenProperties vals = some (some (name, dec)))
    (hhub : t.w.its.trusted hubChain = []) :
    registerTokenMetadataCallback C cx tok gas caller true vals t = none := by
  simp only [registerTokenMetadataCallback, hp, Bool.not_true, Bool.false_eq_true, if_false,
    registerTokenMetadataRaw, run_bind, run_emit]
  cases he : Abi.Metadata.encode ⟨Generated.MESSAGE_TYPE_REGISTER_TOKEN_METADATA, tok, UInt8.ofNat dec⟩ with
  | error e => simp
  | ok payload =>
    simp [callContract, hhub]

/-- **FINDING F2 (remote deploy).**  For a fungible reply, when the destination chain has no
    route at callback time (untrusted / removed / the hub chain itself / hub unset for a routed
    chain) or equals the own chain, or the service is paused, the callback FAILS. -/
theorem remote_deploy_callback_without_route_strands_gas (C : Crypto) (cx : ICtx)
    (salt chain sym dm : Bytes) (gas : Nat) (caller : Bytes) (vals : List Bytes) (name : Bytes) (dec : Nat) (t : Tx)
    (hp : parseTokenProperties vals = some (some (name, dec)))
    (hne : chain ≠ [])
    (hbad : t.w.its.paused = true ∨ t.w.its.chainName = chain) :
    deployRemoteTokenCallback C cx salt chain sym dm gas caller true vals t = none := by
  simp only [deployRemoteTokenCallback, hp, Bool.not_true, Bool.false_eq_true, if_false, run_bind]
  have : deployInterchainTokenRaw C cx salt chain name sym dec dm gas t = none := by
    simp only [deployInterchainTokenRaw, run_bind, requireNotPaused_run]
    rcases hbad with hb | hb
    · simp [hb]
    · cases hpz : t.w.its.paused
      · have hc : chain.isEmpty = false := by simpa using hne
        simp [hc, hb]
      · simp
  simp [this]

/-- **Partial (what does hold).**  If the callback transaction succeeds, then either the value
    was refunded (error / non-fungible) or the fungible branch ran to completion — which includes
    the gas-service payment and the gateway call (`registerTokenMetadataRaw` / `deployInterchainTokenRaw`
    succeeded). -/
theorem successful_callback_refunds_or_forwards_partial (C : Crypto) (cx : ICtx) (tok : Bytes) (gas : Nat)
    (caller : Bytes) (ok : Bool) (vals : List Bytes) (t t' : Tx)
    (h : registerTokenMetadataCallback C cx tok gas caller ok vals t = some ((), t')) :
    refundGas cx caller gas t = some ((), t') ∨
    ∃ name dec, ok = true ∧ parseTokenProperties vals = some (some (name, dec)) ∧
      registerTokenMetadataRaw C cx tok dec gas t = some ((), t') := by
  cases ok with
  | false => left; simpa [registerTokenMetadataCallback] using h
  | true =>
    simp only [registerTokenMetadataCallback, Bool.not_true, Bool.false_eq_true, if_false] at h
    cases hp : parseTokenProperties vals with
    | none => simp [hp] at h
    | some r =>
      cases r with
      | none => left; simpa [hp] using h
      | some nd =>
        obtain ⟨name, dec⟩ := nd
        right
        simp only [hp] at h
        exact ⟨name, dec, rfl, rfl, h⟩


/-! ### Where the value goes (EGLD balances) -/

/-- **A successful metadata callback moves exactly the gas value out of the service**: to the
    original caller (error / non-fungible reply) or to the gas service (fungible reply, together
    with the gateway call) — for every reply, gas value and world state.  Nobody else's EGLD
    balance changes. -/
theorem metadata_callback_moves_exactly_the_gas_value (C : Crypto) (cx : ICtx) (tok : Bytes) (gas : Nat)
    (caller : Bytes) (ok : Bool) (vals : List Bytes) (t t' : Tx)
    (hkgs : t.w.kind t.w.its.gasService = some .gasService) (hkgw : t.w.kind t.w.its.gateway = some .gateway)
    (h : registerTokenMetadataCallback C cx tok gas caller ok vals t = some ((), t')) :
    gas ≤ World.egld t.w cx.self ∧
    ((∀ x, World.egld t'.w x = World.movedEgld t.w cx.self caller gas x) ∨
     (∀ x, World.egld t'.w x = World.movedEgld t.w cx.self t.w.its.gasService gas x)) := by
  rcases successful_callback_refunds_or_forwards_partial C cx tok gas caller ok vals t t' h with hr | ⟨name, dec, _, _, hf⟩
  · rcases refund_exact cx caller gas t t' hr with ⟨h0, rfl⟩ | ⟨_, hs, _, _⟩
    · subst h0
      exact ⟨Nat.zero_le _, Or.inl (fun x => (World.movedEgld_zero _ _ _ _).symm)⟩
    · obtain ⟨hle, he⟩ := World.send_egld _ _ _ _ _ hs
      exact ⟨hle, Or.inl he⟩
  · simp only [registerTokenMetadataRaw, run_bind, run_emit] at hf
    cases he : Abi.Metadata.encode ⟨Generated.MESSAGE_TYPE_REGISTER_TOKEN_METADATA, tok, UInt8.ofNat dec⟩ with
    | error e => simp [he] at hf
    | ok payload =>
      simp only [he, run_bind, run_getI] at hf
      obtain ⟨hle, hx⟩ := callContract_native_egld C cx _ _ _ gas
        { t with evs := t.evs ++ [⟨cx.self, "token_metadata_registered_event", [tok], [encNat dec]⟩] } t' hkgs hkgw hf
      exact ⟨hle, Or.inr hx⟩

/-- … so **the service keeps none of it**: its own EGLD balance after the callback is its balance
    before minus the gas value the first transaction had brought in. -/
theorem metadata_callback_service_keeps_nothing (C : Crypto) (cx : ICtx) (tok : Bytes) (gas : Nat)
    (caller : Bytes) (ok : Bool) (vals : List Bytes) (t t' : Tx)
    (hkgs : t.w.kind t.w.its.gasService = some .gasService) (hkgw : t.w.kind t.w.its.gateway = some .gateway)
    (hc : caller ≠ cx.self) (hg : t.w.its.gasService ≠ cx.self)
    (h : registerTokenMetadataCallback C cx tok gas caller ok vals t = some ((), t')) :
    World.egld t'.w cx.self + gas = World.egld t.w cx.self := by
  obtain ⟨hle, hm⟩ := metadata_callback_moves_exactly_the_gas_value C cx tok gas caller ok vals t t' hkgs hkgw h
  rcases hm with hm | hm
  · rw [hm cx.self]; unfold World.movedEgld; simp [Ne.symm hc]; omega
  · rw [hm cx.self]; unfold World.movedEgld; simp [Ne.symm hg]; omega

/-- the refund as a ledger equation: exactly `gas` EGLD from the service to the caller -/
theorem refund_led (cx : ICtx) (caller : Bytes) (gas : Nat) (t t' : Tx)
    (h : refundGas cx caller gas t = some ((), t')) :
    World.Led t.w t'.w (World.pt cx.self none gas) (World.pt caller none gas) := by
  rcases refund_exact cx caller gas t t' h with ⟨h0, rfl⟩ | ⟨_, hs, _, _⟩
  · subst h0
    exact (World.Led.refl _).conv (by intro x k; simp [World.pt, World.nil])
  · exact World.led_send _ _ _ _ _ _ hs

/-- **A successful remote-deployment callback moves exactly the gas value out of the service**:
    to the original caller (error / non-fungible reply) or to the gas service (fungible reply,
    together with the gateway message of the deployment) — for every account and asset; nothing
    else moves.  (`destChain ≠ []`: a remote deployment names a destination chain.) -/
theorem remote_deploy_callback_moves_exactly_the_gas_value (C : Crypto) (cx : ICtx)
    (salt chain sym dm : Bytes) (gas : Nat) (caller : Bytes) (ok : Bool) (vals : List Bytes) (t t' : Tx)
    (hkgs : t.w.kind t.w.its.gasService = some .gasService) (hkgw : t.w.kind t.w.its.gateway = some .gateway)
    (hchain : chain ≠ [])
    (h : deployRemoteTokenCallback C cx salt chain sym dm gas caller ok vals t = some ((), t')) :
    ∃ target, (target = caller ∨ target = t.w.its.gasService) ∧
      World.Led t.w t'.w (World.pt cx.self none gas) (World.pt target none gas) := by
  by_cases hr : ok = false ∨ parseTokenProperties vals = some none
  · rw [refund_on_error_or_non_fungible_deploy C cx salt chain sym dm gas caller ok vals t hr] at h
    exact ⟨caller, Or.inl rfl, refund_led cx caller gas t t' h⟩
  · have hok : ok = true := by cases ok <;> simp_all
    subst hok
    simp only [deployRemoteTokenCallback, Bool.not_true, Bool.false_eq_true, if_false] at h
    cases hp : parseTokenProperties vals with
    | none => simp [hp] at h
    | some o =>
      cases o with
      | none => exact absurd (Or.inr hp) hr
      | some nd =>
        obtain ⟨name, dec⟩ := nd
        simp only [hp, run_bind] at h
        cases hd : deployInterchainTokenRaw C cx salt chain name sym dec dm gas t with
        | none => simp [hd] at h
        | some r =>
          obtain ⟨tid, t1⟩ := r
          simp only [hd, run_pure, Option.some.injEq, Prod.mk.injEq, true_and] at h
          subst h
          refine ⟨t.w.its.gasService, Or.inr rfl, ?_⟩
          -- the remote branch: pause check, event, own-chain check, then the routed message with the gas
          simp only [deployInterchainTokenRaw, run_bind, requireNotPaused_run] at hd
          cases hpz : t.w.its.paused
          · have hne : chain.isEmpty = false := by cases chain <;> simp_all
            simp only [hpz, Bool.false_eq_true, if_false, run_emit, hne, run_bind, run_getI, run_require] at hd
            by_cases hown : (t.w.its.chainName != chain) = true
            · simp only [hown, if_true, deployRemoteBase, run_bind, run_require] at hd
              by_cases hn1 : (!name.isEmpty) = true
              · simp only [hn1, if_true] at hd
                by_cases hn2 : (!sym.isEmpty) = true
                · simp only [hn2, if_true, deployedTokenManager_run] at hd
                  by_cases hn3 : (t.w.its.tmAddress (tokenIdRaw C salt)).isEmpty = true
                  · simp [hn3] at hd
                  · simp only [hn3, Bool.false_eq_true, if_false] at hd
                    cases he : Abi.Deploy.encode ⟨Generated.MESSAGE_TYPE_DEPLOY_INTERCHAIN_TOKEN,
                        tokenIdRaw C salt, name, sym, UInt8.ofNat dec, dm⟩ with
                    | error e => simp [he] at hd
                    | ok payload =>
                      simp only [he, run_bind] at hd
                      cases hrm : routeMessage C cx chain payload none gas
                          { t with evs := t.evs ++ [⟨cx.self, "interchain_token_id_claimed_event", [tokenIdRaw C salt], [salt]⟩] } with
                      | none => simp [hrm] at hd
                      | some q =>
                        obtain ⟨u, t2⟩ := q
                        simp only [hrm, run_emit, run_pure, Option.some.injEq, Prod.mk.injEq] at hd
                        obtain ⟨_, rfl⟩ := hd
                        simp only [routeMessage, run_bind, run_getI] at hrm
                        cases hg : getCallParams t.w.its chain payload with
                        | none => simp [hg] at hrm
                        | some v =>
                          obtain ⟨dc, da, p⟩ := v
                          simp only [hg] at hrm
                          cases u
                          exact (callContract_led C cx dc da p none gas
                            { t with evs := t.evs ++ [⟨cx.self, "interchain_token_id_claimed_event", [tokenIdRaw C salt], [salt]⟩] }
                            t2 hkgs hkgw hrm).1
                · simp [hn2] at hd
              · simp [hn1] at hd
            · simp [hown] at hd
          · simp [hpz] at hd

/-! ### Non-vacuity (tests) -/
example : asciiToU8 [49, 56] 0 = some 18 ∧ asciiToU8 [50, 53, 54] 0 = none := by decide

end Axelar.Props.C17
