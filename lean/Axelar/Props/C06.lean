/-
  C06 — ITS ABI encoder is byte-exact Solidity abi.encode for every message type.
  Property theorems only; helper lemmas live in Axelar/Proofs.
-/
import Axelar.Proofs.AbiEncode
import Axelar.Generated.AbiFields
namespace Axelar.Props.C06
open Axelar Axelar.Abi Axelar.Sol

/-- **Main theorem.** For every token list whose integers fit 256 bits (and whose `bytes32`
    fields are 32 bytes, which the Rust type guarantees) and whose encoding is shorter than
    2^32 bytes (the only place the Rust uses `u32` arithmetic), the model of
    `raw_abi_encode` returns exactly the Solidity encoding. -/
theorem encoder_is_abi_encode (toks : List Tok) (hf : ∀ t ∈ toks, Tok.fits t)
    (hlen : 32 * toks.length + (tails toks).length < 2 ^ 32) :
    rawEncode toks = .ok (enc toks) := by
  have h0 := headsLen_eq toks 0
  simp only [Nat.zero_add] at h0
  simp only [rawEncode]
  rw [h0, headPass_spec toks [] _ hf hlen]
  simp only [List.nil_append]
  rw [tailPass_spec toks _ (by omega)]
  rfl

/-- the side condition is exactly "the encoding is shorter than 2^32 bytes" -/
theorem enc_length (toks : List Tok) (hf : ∀ t ∈ toks, Tok.fits t) :
    (enc toks).length = 32 * toks.length + (tails toks).length := by
  simp [enc, heads_length toks _ hf]

/-- **Oversize integers are rejected, never truncated.** -/
theorem rejects_oversize (toks : List Tok) (n : Nat) (hmem : Tok.uint256 n ∈ toks)
    (hn : 2 ^ 256 ≤ n) : ∃ e, rawEncode toks = .error e := by
  simp only [rawEncode]
  obtain ⟨e, he⟩ := headPass_error toks [] (toks.foldl (fun a t => a + headLen t) 0) n hmem hn
  exact ⟨e, by rw [he]⟩

/-! ### Tie to the source: the per-type token lists are those extracted from abi_types.rs -/

def fieldTys (l : List (Ty × String)) : List Ty := l.map Prod.fst

theorem transfer_fields (p : Transfer) : p.toks.map Tok.ty = fieldTys Generated.transferEncode := rfl
theorem deploy_fields (p : Deploy) : p.toks.map Tok.ty = fieldTys Generated.deployEncode := rfl
theorem hub_fields (p : Hub) : p.toks.map Tok.ty = fieldTys Generated.hubEncode := rfl
theorem metadata_fields (p : Metadata) : p.toks.map Tok.ty = fieldTys Generated.metadataEncode := rfl
theorem link_fields (p : Link) : p.toks.map Tok.ty = fieldTys Generated.linkEncode := rfl

/-- field *names* in source order (a swap of two same-typed fields in the Rust breaks this) -/
theorem field_names :
    Generated.transferEncode.map Prod.snd =
      ["message_type", "token_id", "source_address", "destination_address", "amount", "data"] ∧
    Generated.deployEncode.map Prod.snd =
      ["message_type", "token_id", "name", "symbol", "decimals", "minter"] ∧
    Generated.hubEncode.map Prod.snd = ["message_type", "destination_chain", "payload"] ∧
    Generated.metadataEncode.map Prod.snd = ["message_type", "token_identifier", "decimals"] ∧
    Generated.linkEncode.map Prod.snd =
      ["message_type", "token_id", "token_manager_type", "source_token_address",
       "destination_token_address", "link_params"] := by decide

/-- the `TokenManagerType -> u8` table is the EVM one (identity on 0..4) -/
theorem token_manager_type_table :
    Generated.tokenManagerTypeIntoU8 =
      [("NativeInterchainToken", 0), ("MintBurnFrom", 1), ("LockUnlock", 2),
       ("LockUnlockFee", 3), ("MintBurn", 4)] := by decide

/-! ### Per-type corollaries -/

theorem transfer_encode (p : Transfer) (h1 : p.messageType < 2 ^ 256) (h2 : p.amount < 2 ^ 256)
    (h3 : p.tokenId.length = 32) (hlen : 32 * 6 + (tails p.toks).length < 2 ^ 32) :
    p.encode = .ok (enc p.toks) :=
  encoder_is_abi_encode p.toks (by simp [Transfer.toks, Tok.fits, h1, h2, h3]) hlen

theorem deploy_encode (p : Deploy) (h1 : p.messageType < 2 ^ 256)
    (h3 : p.tokenId.length = 32) (hlen : 32 * 6 + (tails p.toks).length < 2 ^ 32) :
    p.encode = .ok (enc p.toks) :=
  encoder_is_abi_encode p.toks (by simp [Deploy.toks, Tok.fits, h1, h3]) hlen

theorem hub_encode (p : Hub) (h1 : p.messageType < 2 ^ 256)
    (hlen : 32 * 3 + (tails p.toks).length < 2 ^ 32) :
    p.encode = .ok (enc p.toks) :=
  encoder_is_abi_encode p.toks (by simp [Hub.toks, Tok.fits, h1]) hlen

theorem metadata_encode (p : Metadata) (h1 : p.messageType < 2 ^ 256)
    (hlen : 32 * 3 + (tails p.toks).length < 2 ^ 32) :
    p.encode = .ok (enc p.toks) :=
  encoder_is_abi_encode p.toks (by simp [Metadata.toks, Tok.fits, h1]) hlen

theorem link_encode (p : Link) (h1 : p.messageType < 2 ^ 256)
    (h3 : p.tokenId.length = 32) (hlen : 32 * 6 + (tails p.toks).length < 2 ^ 32) :
    p.encode = .ok (enc p.toks) :=
  encoder_is_abi_encode p.toks (by simp [Link.toks, Tok.fits, h1, h3]) hlen

/-- Layout facts stated in the property: one 32-byte head word per field, tails in field
    order, each tail a length word followed by the data right-padded to a 32-byte multiple. -/
theorem layout (toks : List Tok) (hf : ∀ t ∈ toks, Tok.fits t) :
    (heads toks (32 * toks.length)).length = 32 * toks.length ∧
    enc toks = heads toks (32 * toks.length) ++ (toks.map Sol.tail).flatten ∧
    (∀ b, Sol.tail (.bytes b) = word b.length ++ b ++ zeros ((32 - b.length % 32) % 32)) ∧
    (∀ t ∈ toks, (Sol.tail t).length % 32 = 0) := by
  refine ⟨heads_length toks _ hf, rfl, fun b => by simp [Sol.tail, padRight], fun t _ => ?_⟩
  rw [tail_length]; cases t <;> simp [tailLen]

/-! ### Non-vacuity (tests, not obligations) -/

example : (∀ t ∈ ([.uint256 5, .bytes [1, 2, 3]] : List Tok), Tok.fits t) ∧
    32 * 2 + (tails [.uint256 5, .bytes [1, 2, 3]]).length < 2 ^ 32 := by
  refine ⟨by decide, by decide⟩

example : rawEncode [.uint256 5, .bytes [1, 2, 3]] = .ok (enc [.uint256 5, .bytes [1, 2, 3]]) :=
  encoder_is_abi_encode _ (by decide) (by decide)

end Axelar.Props.C06
