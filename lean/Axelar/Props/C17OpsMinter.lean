/-
  C17 — the whole-operation theorems for `deployRemoteInterchainTokenWithMinter(salt, minter, chain, [destination
  minter])`: whatever the minter argument and the approval do, the first transaction moves exactly the attached EGLD
  from the sender into the service, registers one lookup remembering it, and a successful callback takes exactly that
  amount out again.  With `C17Ops.lean` (metadata, canonical) and `C17OpsFactory.lean` this covers every endpoint that
  carries cross-chain gas through an asynchronous token lookup.
-/
import Axelar.Props.C17OpsFactory
namespace Axelar.Props.C17
open Axelar Axelar.ItsW Axelar.Its Codec

/-- the `isMinter` view of a token manager, called by the service: nothing changes -/
theorem subcall_isMinter (C : Crypto) (cx : ICtx) (tm minter : Bytes) (t t' : Tx) (rs : List Bytes)
    (hk : t.w.kind tm = some .tokenManager)
    (h : subcall C cx tm "isMinter" 0 [] [minter] t = some (rs, t')) :
    t' = t := by
  unfold subcall at h
  cases hp : World.pay t.w cx.self tm 0 [] with
  | none => simp [hp] at h
  | some w1 =>
    have hw1 := pay_zero_eq _ _ _ _ hp
    subst hw1
    simp only [hp] at h
    cases hc : World.callOther C t.w cx.self tm "isMinter" 0 [] [minter] with
    | none => simp [hc] at h
    | some r =>
      obtain ⟨w2, rs2, evs, pd⟩ := r
      simp only [hc, Option.some.injEq, Prod.mk.injEq] at h
      obtain ⟨rfl, rfl⟩ := h
      unfold World.callOther at hc
      rw [hk] at hc
      simp only at hc
      cases hfix : topFixed 32 minter with
      | none =>
        have hcall : TokenManager.call (t.w.tms tm) (World.tmCtx t.w cx.self tm 0 []) "isMinter" [minter] =
            .error .args := by
          simp [TokenManager.call, TokenManager.notPayable, World.tmCtx, hfix]
        rw [hcall] at hc
        simp at hc
      | some a =>
        have hcall : TokenManager.call (t.w.tms tm) (World.tmCtx t.w cx.self tm 0 []) "isMinter" [minter] =
            .ok { st := t.w.tms tm,
                  results := [encBool (TokenManager.intersects ((t.w.tms tm).roles a) TokenManager.MINTER)] } := by
          simp [TokenManager.call, TokenManager.notPayable, TokenManager.view, World.tmCtx, hfix]
        rw [hcall] at hc
        simp only [World.tmFinish, World.applyEffects] at hc
        have hupd : upd t.w.tms tm (t.w.tms tm) = t.w.tms := by
          funext a; simp only [upd]; split <;> simp_all
        simp only [hupd, Option.some.injEq, Prod.mk.injEq] at hc
        obtain ⟨rfl, _, rfl, rfl⟩ := hc
        cases t
        simp [World.stamp]


/-- **What `deployRemoteWithMinter` does before the raw remote deployment** (minter check through the manager's view,
    use of the approval): the world is untouched except for the service's own storage, in which neither the token-manager
    table nor the pause flag changes; then the raw deployment runs for the caller's interchain salt. -/
theorem deployRemoteWithMinter_reaches_raw (C : Crypto) (cx : ICtx) (salt minter chain : Bytes) (dmOpt : Option Bytes)
    (t t' : Tx) (tid tm : Bytes)
    (htm : t.w.its.tmAddress (tokenIdRaw C (interchainTokenDeploySalt C t.w.its cx.caller salt)) = tm)
    (hk : t.w.kind tm = some .tokenManager)
    (h : deployRemoteWithMinter C cx salt minter chain dmOpt t = some (tid, t')) :
    ∃ (its' : Its.State) (dmRaw : Bytes),
      its'.tmAddress = t.w.its.tmAddress ∧ its'.paused = t.w.its.paused ∧
      deployRemoteInterchainTokenRaw C cx (interchainTokenDeploySalt C t.w.its cx.caller salt) chain dmRaw cx.caller
        { t with w := { t.w with its := its' } } = some (tid, t') := by
  simp only [deployRemoteWithMinter, run_bind, run_getI] at h
  by_cases hz : Gateway.isZeroAddr minter = true
  · simp only [hz, Bool.not_true, Bool.false_eq_true, if_false, run_bind, run_require, run_pure] at h
    by_cases hn : dmOpt.isNone = true
    · simp only [hn, if_true] at h
      exact ⟨t.w.its, [], rfl, rfl, h⟩
    · simp [hn] at h
  · have hz' : Gateway.isZeroAddr minter = false := by simpa using hz
    simp only [hz', Bool.not_false, if_true, run_bind, checkTokenMinter, run_getI, run_require, htm] at h
    by_cases hem : tm.isEmpty = true
    · simp [hem] at h
    · simp only [hem, Bool.not_false, if_true] at h
      cases hs : subcall C cx tm "isMinter" 0 [] [minter] t with
      | none => simp [hs] at h
      | some r =>
        obtain ⟨rs, t1⟩ := r
        have ht1 := subcall_isMinter C cx tm minter t t1 rs hk hs
        subst ht1
        simp only [hs] at h
        by_cases h1 : (rs == [encBool true]) = true
        · simp only [h1, if_true] at h
          by_cases h2 : (minter != cx.self) = true
          · simp only [h2, if_true] at h
            cases dmOpt with
            | none =>
              simp only [run_pure] at h
              exact ⟨t1.w.its, minter, rfl, rfl, h⟩
            | some dm =>
              simp only [run_bind, run_getI] at h
              cases hu : useDeployApproval C t1.w.its minter
                  (tokenIdRaw C (interchainTokenDeploySalt C t1.w.its cx.caller salt)) chain dm with
              | none => simp [hu] at h
              | some st' =>
                simp only [hu, run_bind, run_setI, run_pure] at h
                refine ⟨st', dm, ?_, ?_, h⟩
                · simp only [useDeployApproval] at hu
                  split at hu
                  · cases hu; rfl
                  · cases hu
                · simp only [useDeployApproval] at hu
                  split at hu
                  · cases hu; rfl
                  · cases hu
          · simp [h2] at h
        · simp [h1] at h

theorem call_deployRemoteWithMinter (C : Crypto) (cx : ICtx) (saltArg minterArg chain : Bytes) (rest : List Bytes) :
    ItsW.call C cx "deployRemoteInterchainTokenWithMinter" (saltArg :: minterArg :: chain :: rest) =
      (do let _st ← getI
          if !onlyEgld cx then fail else
          match topFixed 32 saltArg, topFixed 32 minterArg, optionalTail rest with
          | some salt, some minter, some dm => retUnlessAsync (deployRemoteWithMinter C cx salt minter chain dm)
          | _, _, _ => fail) := rfl

/-- **First transaction of `deployRemoteInterchainTokenWithMinter` for an ESDT token** (any minter argument, with or
    without a destination minter): the sender's EGLD goes to the service, nothing else moves for any account or asset, and
    exactly one token lookup is registered which remembers that amount as the gas value and the sender as the one to
    refund. -/
theorem remote_with_minter_first_transaction (C : Crypto) (w w' : World)
    (sender its saltArg minterArg salt minter chain : Bytes) (rest : List Bytes) (dmOpt : Option Bytes)
    (egld : Nat) (esdt : List (Bytes × Nat × Nat)) (rs : List Bytes) (evs : List Event) (pd : List PendDesc) (tm : Bytes)
    (hk : w.kind its = some .its) (hsalt : topFixed 32 saltArg = some salt)
    (hminter : topFixed 32 minterArg = some minter) (hrest : optionalTail rest = some dmOpt)
    (htm : w.its.tmAddress (tokenIdRaw C (interchainTokenDeploySalt C w.its sender salt)) = tm)
    (hktm : w.kind tm = some .tokenManager)
    (hesdt : GasService.tokOfBytes (w.tms tm).tokenIdentifier ≠ none)
    (h : World.tx C w sender its "deployRemoteInterchainTokenWithMinter" egld esdt
      (saltArg :: minterArg :: chain :: rest) = (w', .ok rs evs pd)) :
    esdt = [] ∧
    World.Led w w' (World.pt sender none egld) (World.pt its none egld) ∧
    ∃ dmRaw, w'.pending = w.pending ++
      [⟨⟨w.nextPending, esdtSystemSc, "getTokenProperties", 0, [], [(w.tms tm).tokenIdentifier]⟩, its,
        .itsDeployRemote its (interchainTokenDeploySalt C w.its sender salt) chain
          ((w.tms tm).tokenIdentifier.take ((w.tms tm).tokenIdentifier.length - 7)) dmRaw egld sender, none⟩] := by
  unfold World.tx at h
  cases hp : World.pay w sender its egld esdt with
  | none => simp [hp] at h
  | some w1 =>
    simp only [hp, hk] at h
    have hb := World.pay_bal _ _ _ _ _ _ hp
    have hl0 := World.led_pay _ _ _ _ _ _ hp
    cases hc : World.callContract C w1 sender its "deployRemoteInterchainTokenWithMinter" egld esdt
        (saltArg :: minterArg :: chain :: rest) with
    | none => simp [hc] at h
    | some r =>
      obtain ⟨w2, rs2, evs2, pd2⟩ := r
      simp only [hc, Prod.mk.injEq] at h
      obtain ⟨rfl, _⟩ := h
      unfold World.callContract at hc
      rw [hb.kind, hk] at hc
      simp only [World.runIts] at hc
      cases hr : ItsW.call C (World.itsCtx w1 sender its egld esdt) "deployRemoteInterchainTokenWithMinter"
          (saltArg :: minterArg :: chain :: rest) { w := w1 } with
      | none => simp [hr] at hc
      | some v =>
        obtain ⟨a, tt⟩ := v
        simp only [hr, Option.some.injEq, Prod.mk.injEq] at hc
        obtain ⟨rfl, _, _, _⟩ := hc
        rw [call_deployRemoteWithMinter] at hr
        simp only [run_bind, run_getI] at hr
        by_cases hoe : onlyEgld (World.itsCtx w1 sender its egld esdt) = true
        · simp only [hoe, Bool.not_true, Bool.false_eq_true, if_false, hsalt, hminter, hrest] at hr
          have he : esdt = [] := by simpa [onlyEgld, World.itsCtx] using hoe
          subst he
          rw [retUnlessAsync_run] at hr
          have e1 : w1.its = w.its := by rw [hb]
          have e2 : w1.tms = w.tms := by rw [hb]
          have e3 : w1.kind = w.kind := by rw [hb]
          have e4 : w1.pending = w.pending := by rw [hb]
          have e5 : w1.nextPending = w.nextPending := by rw [hb]
          have ec : (World.itsCtx w1 sender its egld []).caller = sender := rfl
          cases hwm : deployRemoteWithMinter C (World.itsCtx w1 sender its egld []) salt minter chain dmOpt { w := w1 } with
          | none => simp [hwm] at hr
          | some q =>
            obtain ⟨tid, t2⟩ := q
            obtain ⟨its', dmRaw, hta, _, hraw⟩ := deployRemoteWithMinter_reaches_raw C (World.itsCtx w1 sender its egld [])
              salt minter chain dmOpt { w := w1 } t2 tid tm
              (by show w1.its.tmAddress _ = tm; rw [e1, ec]; exact htm)
              (by show w1.kind tm = _; rw [e3]; exact hktm) hwm
            have hw2 := deployRemoteRaw_esdt C (World.itsCtx w1 sender its egld [])
              (interchainTokenDeploySalt C w1.its (World.itsCtx w1 sender its egld []).caller salt)
              chain dmRaw _ { w := { w1 with its := its' } } t2 tid tm
              (by show its'.tmAddress _ = tm; rw [hta, e1, ec]; exact htm)
              (by show w1.kind tm = _; rw [e3]; exact hktm)
              (by show GasService.tokOfBytes (w1.tms tm).tokenIdentifier ≠ none; rw [e2]; exact hesdt) hraw
            simp only [hwm, Option.some.injEq, Prod.mk.injEq] at hr
            have htt : tt.w = t2.w := by rw [← hr.2]
            refine ⟨rfl, ?_, dmRaw, ?_⟩
            · rw [htt, hw2]
              apply World.Led.conv (hl0.trans (World.Led.of_accts rfl))
              intro x k
              simp only [World.plus, World.nil, World.pt, World.payAmt]
              cases k <;> simp
            · rw [htt, hw2]
              simp only [World.itsCtx, e1, e2, e4, e5]
        · simp [hoe] at hr

/-- **The whole `deployRemoteInterchainTokenWithMinter` of an ESDT token**: over the operation the service's EGLD goes up
    by exactly the attached amount (first transaction) and down by exactly the same amount (successful callback of the
    delivered lookup, whatever the reply and whatever the schedule put in between). -/
theorem remote_with_minter_operation_leaves_nothing_in_the_service (C : Crypto) (w0 w1 w2 w3 : World)
    (sender its saltArg minterArg salt0 minter chain tm : Bytes) (rest : List Bytes) (dmOpt : Option Bytes)
    (egld : Nat) (esdt : List (Bytes × Nat × Nat))
    (rs rs' : List Bytes) (evs evs' : List Event) (pd pd' : List PendDesc)
    (hk : w0.kind its = some .its) (hs : sender ≠ its) (hsalt : topFixed 32 saltArg = some salt0)
    (hminter : topFixed 32 minterArg = some minter) (hrest : optionalTail rest = some dmOpt)
    (htm : w0.its.tmAddress (tokenIdRaw C (interchainTokenDeploySalt C w0.its sender salt0)) = tm)
    (hktm : w0.kind tm = some .tokenManager)
    (hesdt : GasService.tokOfBytes (w0.tms tm).tokenIdentifier ≠ none)
    (h1 : World.tx C w0 sender its "deployRemoteInterchainTokenWithMinter" egld esdt
      (saltArg :: minterArg :: chain :: rest) = (w1, .ok rs evs pd))
    (p : Pending) (hp : World.findPending w2.pending w0.nextPending = some p)
    (salt sym dm : Bytes) (hpk : p.kind = .itsDeployRemote its salt chain sym dm egld sender)
    (okFlag : Bool) (vals : List Bytes) (hres : p.result = some (okFlag, vals))
    (hkgs : w2.kind w2.its.gasService = some .gasService) (hkgw : w2.kind w2.its.gateway = some .gateway)
    (hg : w2.its.gasService ≠ its) (hchain : chain ≠ [])
    (h2 : World.callback C w2 w0.nextPending = (w3, .ok rs' evs' pd')) :
    World.egld w1 its = World.egld w0 its + egld ∧ World.egld w3 its + egld = World.egld w2 its := by
  obtain ⟨_, hl, _⟩ := remote_with_minter_first_transaction C w0 w1 sender its saltArg minterArg salt0 minter chain rest
    dmOpt egld esdt rs evs pd tm hk hsalt hminter hrest htm hktm hesdt h1
  obtain ⟨target, htg, hl2⟩ := remote_deploy_callback_at_chain_level C w2 w3 _ p its salt chain sym dm egld sender
    okFlag vals rs' evs' pd' hp hpk hres hkgs hkgw hchain h2
  have hne : ¬ (its = sender) := fun e => hs e.symm
  have htne : ¬ (its = target) := by
    rcases htg with rfl | rfl
    · exact hne
    · exact fun e => hg e.symm
  constructor
  · have := hl its none
    simp only [World.pt, World.balanceOf] at this
    simp only [World.egld]
    simp [hne] at this
    omega
  · have := hl2 its none
    simp only [World.pt, World.balanceOf] at this
    simp only [World.egld]
    simp [htne] at this
    omega

/-! ### Non-vacuity (test): the optional destination minter argument -/
example : optionalTail [[1, 2]] = some (some [1, 2]) ∧ optionalTail [] = some none := ⟨rfl, rfl⟩

end Axelar.Props.C17
