/-
  C17 — the whole-operation theorems of `C17Ops.lean` for the factory's `deployRemoteInterchainToken(salt, chain)`
  (no minter): the first transaction puts exactly the attached EGLD into the service and registers one token
  lookup remembering that amount and the sender; a successful callback of that lookup — any reply, any
  operations in between — takes exactly that amount out again, to the sender or to the gas service.
-/
import Axelar.Props.C17Ops
namespace Axelar.Props.C17
open Axelar Axelar.ItsW Axelar.Its Codec

theorem call_deployRemoteInterchain (C : Crypto) (cx : ICtx) (saltArg chain : Bytes) :
    ItsW.call C cx "deployRemoteInterchainToken" [saltArg, chain] =
      (do let _st ← getI
          if !onlyEgld cx then fail else
          match topFixed 32 saltArg with
          | some salt => retUnlessAsync (deployRemoteWithMinter C cx salt zeroAddr chain none)
          | none => fail) := rfl

/-- without a minter the factory flow is the raw remote deployment under the deployer's interchain salt -/
theorem deployRemoteWithMinter_zero (C : Crypto) (cx : ICtx) (salt chain : Bytes) (t : Tx) :
    deployRemoteWithMinter C cx salt zeroAddr chain none t =
      deployRemoteInterchainTokenRaw C cx (interchainTokenDeploySalt C t.w.its cx.caller salt) chain [] cx.caller t := by
  have hz : Gateway.isZeroAddr zeroAddr = true := by decide
  simp [deployRemoteWithMinter, hz]

/-- **First transaction of `deployRemoteInterchainToken` for an ESDT token**: the sender's EGLD goes to the service,
    nothing else moves, and exactly one token lookup is registered which remembers that amount as the gas value and
    the sender as the one to refund. -/
theorem remote_interchain_first_transaction (C : Crypto) (w w' : World) (sender its saltArg salt chain : Bytes)
    (egld : Nat) (esdt : List (Bytes × Nat × Nat)) (rs : List Bytes) (evs : List Event) (pd : List PendDesc) (tm : Bytes)
    (hk : w.kind its = some .its) (hsalt : topFixed 32 saltArg = some salt)
    (htm : w.its.tmAddress (tokenIdRaw C (interchainTokenDeploySalt C w.its sender salt)) = tm)
    (hktm : w.kind tm = some .tokenManager)
    (hesdt : GasService.tokOfBytes (w.tms tm).tokenIdentifier ≠ none)
    (h : World.tx C w sender its "deployRemoteInterchainToken" egld esdt [saltArg, chain] = (w', .ok rs evs pd)) :
    esdt = [] ∧
    World.Led w w' (World.pt sender none egld) (World.pt its none egld) ∧
    w'.pending = w.pending ++
      [⟨⟨w.nextPending, esdtSystemSc, "getTokenProperties", 0, [], [(w.tms tm).tokenIdentifier]⟩, its,
        .itsDeployRemote its (interchainTokenDeploySalt C w.its sender salt) chain
          ((w.tms tm).tokenIdentifier.take ((w.tms tm).tokenIdentifier.length - 7)) [] egld sender, none⟩] := by
  unfold World.tx at h
  cases hp : World.pay w sender its egld esdt with
  | none => simp [hp] at h
  | some w1 =>
    simp only [hp, hk] at h
    have hb := World.pay_bal _ _ _ _ _ _ hp
    have hl0 := World.led_pay _ _ _ _ _ _ hp
    cases hc : World.callContract C w1 sender its "deployRemoteInterchainToken" egld esdt [saltArg, chain] with
    | none => simp [hc] at h
    | some r =>
      obtain ⟨w2, rs2, evs2, pd2⟩ := r
      simp only [hc, Prod.mk.injEq] at h
      obtain ⟨rfl, _⟩ := h
      unfold World.callContract at hc
      rw [hb.kind, hk] at hc
      simp only [World.runIts] at hc
      cases hr : ItsW.call C (World.itsCtx w1 sender its egld esdt) "deployRemoteInterchainToken" [saltArg, chain] { w := w1 } with
      | none => simp [hr] at hc
      | some v =>
        obtain ⟨a, tt⟩ := v
        simp only [hr, Option.some.injEq, Prod.mk.injEq] at hc
        obtain ⟨rfl, _, _, _⟩ := hc
        rw [call_deployRemoteInterchain] at hr
        simp only [run_bind, run_getI] at hr
        by_cases hoe : onlyEgld (World.itsCtx w1 sender its egld esdt) = true
        · simp only [hoe, Bool.not_true, Bool.false_eq_true, if_false, hsalt] at hr
          have he : esdt = [] := by simpa [onlyEgld, World.itsCtx] using hoe
          subst he
          rw [retUnlessAsync_run, deployRemoteWithMinter_zero] at hr
          have e1 : w1.its = w.its := by rw [hb]
          have e2 : w1.tms = w.tms := by rw [hb]
          have e3 : w1.kind = w.kind := by rw [hb]
          have e4 : w1.pending = w.pending := by rw [hb]
          have e5 : w1.nextPending = w.nextPending := by rw [hb]
          have ec : (World.itsCtx w1 sender its egld []).caller = sender := rfl
          cases hraw : deployRemoteInterchainTokenRaw C (World.itsCtx w1 sender its egld [])
              (interchainTokenDeploySalt C w1.its (World.itsCtx w1 sender its egld []).caller salt) chain []
              (World.itsCtx w1 sender its egld []).caller { w := w1 } with
          | none => simp [hraw] at hr
          | some q =>
            obtain ⟨tid, t2⟩ := q
            have hw2 := deployRemoteRaw_esdt C (World.itsCtx w1 sender its egld [])
              (interchainTokenDeploySalt C w1.its (World.itsCtx w1 sender its egld []).caller salt)
              chain [] _ { w := w1 } t2 tid tm (by show w1.its.tmAddress _ = tm; rw [e1, ec]; exact htm)
              (by show w1.kind tm = _; rw [e3]; exact hktm)
              (by show GasService.tokOfBytes (w1.tms tm).tokenIdentifier ≠ none; rw [e2]; exact hesdt) hraw
            simp only [hraw, Option.some.injEq, Prod.mk.injEq] at hr
            have htt : tt.w = t2.w := by rw [← hr.2]
            refine ⟨rfl, ?_, ?_⟩
            · rw [htt, hw2]
              apply World.Led.conv (hl0.trans (World.Led.of_accts rfl))
              intro x k
              simp only [World.plus, World.nil, World.pt, World.payAmt]
              cases k <;> simp
            · rw [htt, hw2]
              simp only [World.itsCtx, e1, e2, e4, e5]
        · simp [hoe] at hr

/-- **The whole `deployRemoteInterchainToken` of an ESDT token.**  Over the operation — first transaction, anything the
    schedule puts in between, successful callback of the delivered lookup — the service's EGLD goes up by exactly the
    attached amount and down by exactly the same amount: it holds none of the value the user attached. -/
theorem remote_interchain_operation_leaves_nothing_in_the_service (C : Crypto) (w0 w1 w2 w3 : World)
    (sender its saltArg salt0 chain tm : Bytes) (egld : Nat) (esdt : List (Bytes × Nat × Nat))
    (rs rs' : List Bytes) (evs evs' : List Event) (pd pd' : List PendDesc)
    (hk : w0.kind its = some .its) (hs : sender ≠ its) (hsalt : topFixed 32 saltArg = some salt0)
    (htm : w0.its.tmAddress (tokenIdRaw C (interchainTokenDeploySalt C w0.its sender salt0)) = tm)
    (hktm : w0.kind tm = some .tokenManager)
    (hesdt : GasService.tokOfBytes (w0.tms tm).tokenIdentifier ≠ none)
    (h1 : World.tx C w0 sender its "deployRemoteInterchainToken" egld esdt [saltArg, chain] = (w1, .ok rs evs pd))
    (p : Pending) (hp : World.findPending w2.pending w0.nextPending = some p)
    (salt sym dm : Bytes) (hpk : p.kind = .itsDeployRemote its salt chain sym dm egld sender)
    (okFlag : Bool) (vals : List Bytes) (hres : p.result = some (okFlag, vals))
    (hkgs : w2.kind w2.its.gasService = some .gasService) (hkgw : w2.kind w2.its.gateway = some .gateway)
    (hg : w2.its.gasService ≠ its) (hchain : chain ≠ [])
    (h2 : World.callback C w2 w0.nextPending = (w3, .ok rs' evs' pd')) :
    World.egld w1 its = World.egld w0 its + egld ∧ World.egld w3 its + egld = World.egld w2 its := by
  obtain ⟨_, hl, _⟩ := remote_interchain_first_transaction C w0 w1 sender its saltArg salt0 chain egld esdt rs evs pd tm
    hk hsalt htm hktm hesdt h1
  obtain ⟨target, htg, hl2⟩ := remote_deploy_callback_at_chain_level C w2 w3 _ p its salt chain sym dm egld sender
    okFlag vals rs' evs' pd' hp hpk hres hkgs hkgw hchain h2
  have hne : ¬ (its = sender) := fun e => hs e.symm
  have htne : ¬ (its = target) := by
    rcases htg with rfl | rfl
    · exact hne
    · exact fun e => hg e.symm
  constructor
  · have := hl its none
    simp only [World.pt, World.balanceOf] at this
    simp only [World.egld]
    simp [hne] at this
    omega
  · have := hl2 its none
    simp only [World.pt, World.balanceOf] at this
    simp only [World.egld]
    simp [htne] at this
    omega

end Axelar.Props.C17
