/-
  C04 — ITS releases inbound tokens only for approved trusted messages, at most once.
-/
import Axelar.Proofs.GwHistory
import Axelar.Proofs.ItsLedger
namespace Axelar.Props.C04
open Axelar Axelar.ItsW Axelar.Its Codec

/-- **Tokens are handed out only after the gateway approval was found and consumed.**  A
    successful no-data transfer step decoded the payload, validated the message at the gateway
    with result `true`, and then asked the token manager of the payload's token id to give
    exactly the payload amount to exactly the payload recipient. -/
theorem release_requires_validation (C : Crypto) (cx : ICtx) (oc sc mid sa ph payload : Bytes) (t t' : Tx)
    (h : processInterchainTransfer C cx oc sc mid sa ph payload t = some ((), t')) :
    ∃ p, Abi.Transfer.decode payload = .ok p ∧ p.destinationAddress.length = 32 ∧
      (p.data = [] →
        ∃ t0 t1 r, t0.w = t.w ∧ gatewayValidate C cx sc mid sa ph t0 = some (true, t1) ∧
          tmGiveToken C cx p.tokenId p.destinationAddress p.amount t1 = some (r, t')) := by
  simp only [processInterchainTransfer] at h
  cases hd : Abi.Transfer.decode payload with
  | error e => simp [hd] at h
  | ok p =>
    simp only [hd, run_bind, run_require] at h
    by_cases hl : decide (p.destinationAddress.length = 32) = true
    · simp only [hl, if_true, run_emit] at h
      refine ⟨p, rfl, by simpa using hl, fun hdata => ?_⟩
      have he : p.data.isEmpty = true := by simp [hdata]
      have hz : (if p.data.isEmpty = true then zeroHash else C.H p.data) = zeroHash := by simp [he]
      simp only [he, if_true, run_bind] at h
      cases hv : gatewayValidate C cx sc mid sa ph
          { t with evs := t.evs ++ [⟨cx.self, "interchain_transfer_received_event",
            [p.tokenId, oc, mid, p.sourceAddress, p.destinationAddress, zeroHash], [encNat p.amount]⟩] } with
      | none => simp [hv] at h
      | some r =>
        obtain ⟨ok, t1⟩ := r
        simp only [hv, run_require] at h
        cases ok with
        | false => simp at h
        | true =>
          simp only [if_true] at h
          cases hg : tmGiveToken C cx p.tokenId p.destinationAddress p.amount t1 with
          | none => simp [hg] at h
          | some r2 =>
            obtain ⟨r2v, t2⟩ := r2
            simp only [hg, run_pure, Option.some.injEq, Prod.mk.injEq, true_and] at h
            subst h
            exact ⟨{ t with evs := t.evs ++ [⟨cx.self, "interchain_transfer_received_event",
              [p.tokenId, oc, mid, p.sourceAddress, p.destinationAddress, zeroHash], [encNat p.amount]⟩] }, t1, r2v, rfl, hv, hg⟩
    · simp [hl] at h

/-- **… and that validation means**: the gateway held `Approved(hash(source chain, message id,
    source address, THIS service, payload hash))`, and the entry is `Executed` afterwards — so
    (by the gateway's lifecycle, C02) every later attempt with the same message fails. -/
theorem validation_consumes_the_approval (C : Crypto) (cx : ICtx) (chain id src ph : Bytes) (t t1 : Tx)
    (hk : t.w.kind t.w.its.gateway = some .gateway)
    (h : gatewayValidate C cx chain id src ph t = some (true, t1)) :
    t.w.gw.messages (chain, id) = .approved (Gateway.messageHash C chain id src cx.self ph) ∧
    t1.w.gw.messages (chain, id) = .executed :=
  gatewayValidate_true C cx chain id src ph t t1 hk h

/-- **The source must be the trusted peer of its chain** (first check of `execute`, before
    anything else happens). -/
theorem execute_requires_trusted_source (C : Crypto) (cx : ICtx) (sc mid sa payload : Bytes) (t : Tx)
    (h : isTrustedAddress t.w.its sc sa = false) : execute C cx sc mid sa payload t = none := by
  simp only [execute, run_bind, run_require, requireNotPaused_run, run_getI]
  by_cases he : cx.esdt.isEmpty = true
  · simp only [he, if_true]
    cases hp : t.w.its.paused
    · simp [h]
    · simp
  · simp [he]

/-- **Unknown token ids fail**: no token manager, no release. -/
theorem unknown_token_id_fails (C : Crypto) (cx : ICtx) (tid dest : Bytes) (amount : Nat) (t : Tx)
    (h : t.w.its.tmAddress tid = []) : tmGiveToken C cx tid dest amount t = none := by
  simp [tmGiveToken, deployedTokenManager_run, h]

/-- **Malformed recipients fail** (the destination address must be 32 bytes). -/
theorem malformed_recipient_fails (C : Crypto) (cx : ICtx) (oc sc mid sa ph payload : Bytes) (t : Tx)
    (p : Abi.Transfer) (hd : Abi.Transfer.decode payload = .ok p) (hl : p.destinationAddress.length ≠ 32) :
    processInterchainTransfer C cx oc sc mid sa ph payload t = none := by
  simp [processInterchainTransfer, hd, hl]

/-- **Unknown message types fail.** -/
theorem unknown_message_type_fails (C : Crypto) (cx : ICtx) (sc mid sa payload : Bytes) (t : Tx)
    (mt : Nat) (oc inner : Bytes) (hp : getExecuteParams t.w.its sc payload = some (mt, oc, inner))
    (h0 : mt ≠ Generated.MESSAGE_TYPE_INTERCHAIN_TRANSFER)
    (h1 : mt ≠ Generated.MESSAGE_TYPE_DEPLOY_INTERCHAIN_TOKEN) (h5 : mt ≠ Generated.MESSAGE_TYPE_LINK_TOKEN) :
    execute C cx sc mid sa payload t = none := by
  simp only [execute, run_bind, run_require, requireNotPaused_run, run_getI]
  by_cases he : cx.esdt.isEmpty = true
  · simp only [he, if_true]
    cases hpz : t.w.its.paused
    · simp only [Bool.false_eq_true, if_false]
      by_cases ht : isTrustedAddress t.w.its sc sa = true
      · simp [ht, hp, h0, h1, h5]
      · simp [ht]
    · simp
  · simp [he]


/-! ### At most once, over every schedule -/

/-- **A release happens with the approval present before and the message executed after**, in
    one transaction: the no-data transfer step succeeds only if the gateway held the approval
    for exactly these fields addressed to the service, and when it has succeeded the gateway
    entry is `Executed` at the end of the step (the token manager call cannot undo that). -/
theorem release_consumes_the_approval (C : Crypto) (cx : ICtx) (oc sc mid sa ph payload : Bytes) (t t' : Tx)
    (p : Abi.Transfer) (hd : Abi.Transfer.decode payload = .ok p) (hdata : p.data = [])
    (hk : t.w.kind t.w.its.gateway = some .gateway)
    (h : processInterchainTransfer C cx oc sc mid sa ph payload t = some ((), t')) :
    t.w.gw.messages (sc, mid) = .approved (Gateway.messageHash C sc mid sa cx.self ph) ∧
    t'.w.gw.messages (sc, mid) = .executed := by
  obtain ⟨p', hd', _, hrel⟩ := release_requires_validation C cx oc sc mid sa ph payload t t' h
  rw [hd] at hd'
  cases hd'
  obtain ⟨t0, t1, r, hw, hv, hg⟩ := hrel hdata
  have hk0 : t0.w.kind t0.w.its.gateway = some .gateway := by rw [hw]; exact hk
  obtain ⟨ha, he⟩ := gatewayValidate_true C cx sc mid sa ph t0 t1 hk0 hv
  rw [hw] at ha
  refine ⟨ha, ?_⟩
  exact ((gwl_tmGiveToken C cx p.tokenId p.destinationAddress p.amount).h t1 r t' hg (sc, mid)).1 he

/-- **No release for a message that is already executed**: the no-data transfer step fails. -/
theorem executed_message_releases_nothing (C : Crypto) (cx : ICtx) (oc sc mid sa ph payload : Bytes) (t : Tx)
    (p : Abi.Transfer) (hd : Abi.Transfer.decode payload = .ok p) (hdata : p.data = [])
    (hk : t.w.kind t.w.its.gateway = some .gateway)
    (hex : t.w.gw.messages (sc, mid) = .executed) :
    processInterchainTransfer C cx oc sc mid sa ph payload t = none := by
  cases hr : processInterchainTransfer C cx oc sc mid sa ph payload t with
  | none => rfl
  | some x =>
    obtain ⟨u, t'⟩ := x
    have := (release_consumes_the_approval C cx oc sc mid sa ph payload t t' p hd hdata hk hr).1
    rw [hex] at this
    cases this

/-- **Executed is forever**: no sequence of transactions, deliveries, callbacks and environment
    moves — by any callers, to any contracts, in any order — brings an executed message back. -/
theorem executed_message_stays_executed (C : Crypto) (w : World) (ops : List World.Op) (k : Bytes × Bytes)
    (h : w.gw.messages k = .executed) : (World.run C w ops).gw.messages k = .executed :=
  (World.run_life C ops w k).1 h

/-- **So the total ever released for one message never exceeds its amount**: after a release
    (which leaves the message executed), in every later state of every history a further
    no-data transfer step for the same message fails. -/
theorem no_second_release (C : Crypto) (w : World) (ops : List World.Op) (cx : ICtx)
    (oc sc mid sa ph payload : Bytes) (p : Abi.Transfer) (hd : Abi.Transfer.decode payload = .ok p)
    (hdata : p.data = []) (hex : w.gw.messages (sc, mid) = .executed) (t : Tx)
    (ht : t.w.gw = (World.run C w ops).gw) (hk : t.w.kind t.w.its.gateway = some .gateway) :
    processInterchainTransfer C cx oc sc mid sa ph payload t = none :=
  executed_message_releases_nothing C cx oc sc mid sa ph payload t p hd hdata hk
    (by rw [ht]; exact executed_message_stays_executed C w ops (sc, mid) hex)

/-! ### The recipient receives exactly the amount -/

/-- **Exact release.**  When the no-data transfer step succeeds, then for EVERY account and EVERY
    asset (EGLD and every ESDT key) the balances after the step are the balances before it with
    exactly `amount` of the token recorded by the manager of the payload's token id added to the
    recipient named in the payload — taken out of the manager's holdings when it is a
    lock/unlock manager (`giveOut`), freshly minted when it is a mint/burn manager — and nothing
    else moved: the service itself, the gateway, the caller and every other account keep
    exactly what they had.  (The manager accepted the call only from the service that deployed
    it: `cx.self = service`.) -/
theorem release_pays_exactly_the_amount (C : Crypto) (cx : ICtx) (oc sc mid sa ph payload : Bytes) (t t' : Tx)
    (p : Abi.Transfer) (hd : Abi.Transfer.decode payload = .ok p) (hdata : p.data = [])
    (tm : Bytes) (st : TokenManager.State) (htm : t.w.its.tmAddress p.tokenId = tm) (hst : t.w.tms tm = st)
    (hkgw : t.w.kind t.w.its.gateway = some .gateway) (hktm : t.w.kind tm = some .tokenManager)
    (h : processInterchainTransfer C cx oc sc mid sa ph payload t = some ((), t')) :
    cx.self = st.service ∧
    World.Led t.w t'.w (giveOut st tm p.amount)
      (World.pt p.destinationAddress (TokenManager.tokOfBytes st.tokenIdentifier) p.amount) := by
  obtain ⟨p', hd', _, hrel⟩ := release_requires_validation C cx oc sc mid sa ph payload t t' h
  rw [hd] at hd'
  cases hd'
  obtain ⟨t0, t1, r, hw, hv, hg⟩ := hrel hdata
  have hk0 : t0.w.kind t0.w.its.gateway = some .gateway := by rw [hw]; exact hkgw
  have ho := gatewayValidate_only C cx sc mid sa ph t0 t1 true hk0 hv
  have htm1 : t1.w.its.tmAddress p.tokenId = tm := by rw [ho.its, hw]; exact htm
  have hst1 : t1.w.tms tm = st := by rw [ho.tms, hw]; exact hst
  have hk1 : t1.w.kind tm = some .tokenManager := by rw [ho.kind, hw]; exact hktm
  obtain ⟨hsvc, _, hl⟩ := tmGiveToken_led C cx p.tokenId p.destinationAddress p.amount t1 t' r tm st htm1 hst1 hk1 hg
  refine ⟨hsvc, ?_⟩
  have hl0 : World.Led t.w t1.w World.nil World.nil := by rw [← hw]; exact ho.led
  refine (hl0.trans hl).conv ?_
  intro x k
  simp only [World.plus, World.nil]
  omega

/-- … spelled out for a lock/unlock manager: the recipient gains the amount, the manager loses
    it, every other balance is unchanged (recipient ≠ manager). -/
theorem release_from_custody (C : Crypto) (cx : ICtx) (oc sc mid sa ph payload : Bytes) (t t' : Tx)
    (p : Abi.Transfer) (hd : Abi.Transfer.decode payload = .ok p) (hdata : p.data = [])
    (tm : Bytes) (st : TokenManager.State) (htm : t.w.its.tmAddress p.tokenId = tm) (hst : t.w.tms tm = st)
    (hkgw : t.w.kind t.w.its.gateway = some .gateway) (hktm : t.w.kind tm = some .tokenManager)
    (hkind : TokenManager.isMintBurnKind st.implType = false) (hne : p.destinationAddress ≠ tm)
    (h : processInterchainTransfer C cx oc sc mid sa ph payload t = some ((), t')) :
    let tok := TokenManager.tokOfBytes st.tokenIdentifier
    World.balanceOf t'.w p.destinationAddress tok = World.balanceOf t.w p.destinationAddress tok + p.amount ∧
    World.balanceOf t'.w tm tok + p.amount = World.balanceOf t.w tm tok ∧
    ∀ x k, ¬ (k = tok ∧ (x = tm ∨ x = p.destinationAddress)) → World.balanceOf t'.w x k = World.balanceOf t.w x k := by
  intro tok
  obtain ⟨_, hl⟩ := release_pays_exactly_the_amount C cx oc sc mid sa ph payload t t' p hd hdata tm st htm hst hkgw hktm h
  refine ⟨?_, ?_, ?_⟩
  · have := hl p.destinationAddress tok
    simp [giveOut, hkind, World.pt, hne, tok] at this
    exact this
  · have := hl tm tok
    simp [giveOut, hkind, World.pt, Ne.symm hne, tok] at this
    exact this
  · intro x k hx
    have := hl x k
    by_cases hk : k = tok
    · subst hk
      have h1 : x ≠ tm := fun e => hx ⟨rfl, Or.inl e⟩
      have h2 : x ≠ p.destinationAddress := fun e => hx ⟨rfl, Or.inr e⟩
      simp [giveOut, hkind, World.pt, h1, h2] at this
      exact this
    · have hk' : ¬ k = TokenManager.tokOfBytes st.tokenIdentifier := hk
      simp [giveOut, hkind, World.pt, hk'] at this
      exact this

/-- message type ids extracted from the source -/
theorem message_types : Generated.MESSAGE_TYPE_INTERCHAIN_TRANSFER = 0 ∧
    Generated.MESSAGE_TYPE_DEPLOY_INTERCHAIN_TOKEN = 1 ∧ Generated.MESSAGE_TYPE_LINK_TOKEN = 5 := by decide

/-! ### Non-vacuity (test) -/
example : isTrustedAddress { trusted := fun c => if c = [1] then [2] else [] } [1] [2] = true := by decide

end Axelar.Props.C04
