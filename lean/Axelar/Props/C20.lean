/-
  C20 — ITS pause and privileged operations are effective and correctly gated.
-/
import Axelar.Proofs.ItsMonad
import Axelar.Generated.ItsEndpoints
namespace Axelar.Props.C20
open Axelar Axelar.ItsW Axelar.Its Codec

/-! ### While paused every pausable operation fails (= the transaction is rolled back: no state
    change, no value moved), for all callers, arguments, payments and world states. -/

theorem execute_paused (C : Crypto) (cx : ICtx) (a b c d : Bytes) (t : Tx) (h : t.w.its.paused = true) :
    execute C cx a b c d t = none := by
  simp only [execute, run_bind, run_require]
  by_cases he : cx.esdt.isEmpty = true
  · simp [he, requireNotPaused_paused t h]
  · simp [he]

theorem interchainTransfer_paused (C : Crypto) (cx : ICtx) (tid ch ad : Bytes) (data : Option Bytes)
    (gas : Nat) (t : Tx) (h : t.w.its.paused = true) :
    interchainTransfer C cx tid ch ad data gas t = none := by
  simp [interchainTransfer, requireNotPaused_paused t h]

theorem deployInterchainTokenRaw_paused (C : Crypto) (cx : ICtx) (s ch n sy : Bytes) (d : Nat) (m : Bytes)
    (v : Nat) (t : Tx) (h : t.w.its.paused = true) :
    deployInterchainTokenRaw C cx s ch n sy d m v t = none := by
  simp [deployInterchainTokenRaw, requireNotPaused_paused t h]

theorem registerCustomTokenRaw_paused (C : Crypto) (cx : ICtx) (s tok : Bytes) (ty : Nat) (lp : Bytes)
    (t : Tx) (h : t.w.its.paused = true) : registerCustomTokenRaw C cx s tok ty lp t = none := by
  simp [registerCustomTokenRaw, requireNotPaused_paused t h]

theorem linkTokenRaw_paused (C : Crypto) (cx : ICtx) (s ch dt : Bytes) (ty : Nat) (lp : Bytes) (g : Nat)
    (t : Tx) (h : t.w.its.paused = true) : linkTokenRaw C cx s ch dt ty lp g t = none := by
  simp [linkTokenRaw, requireNotPaused_paused t h]

theorem deployRemoteInterchainTokenRaw_paused (C : Crypto) (cx : ICtx) (s ch dm sender : Bytes)
    (t : Tx) (h : t.w.its.paused = true) : deployRemoteInterchainTokenRaw C cx s ch dm sender t = none := by
  simp [deployRemoteInterchainTokenRaw, requireNotPaused_paused t h]

theorem factoryDeployInterchainToken_paused (C : Crypto) (cx : ICtx) (salt n sy : Bytes) (d sup : Nat)
    (m : Bytes) (t : Tx) (h : t.w.its.paused = true) :
    factoryDeployInterchainToken C cx salt n sy d sup m t = none := by
  simp [factoryDeployInterchainToken, requireNotPaused_paused t h]

/-- steps before a pause check cannot disturb it: synchronous sub-calls go to other contracts,
    which never write the service's own storage (`subcall_keeps_its`, Proofs/ItsMonad.lean) -/
theorem subcalls_do_not_touch_service_storage (C : Crypto) (cx : ICtx) (dst : Bytes) (f : String) (e : Nat)
    (es : List (Bytes × Nat × Nat)) (args : List Bytes) (t t' : Tx) (rs : List Bytes)
    (h : subcall C cx dst f e es args t = some (rs, t')) : t'.w.its = t.w.its :=
  subcall_keeps_its C cx dst f e es args t t' rs h

/-! ### Tie to the source: which Rust functions start with the pause check, and that every
    pausable endpoint reaches one of them -/

def pausableEndpoints : List String :=
  ["execute", "interchainTransfer", "callContractWithInterchainToken", "registerCanonicalInterchainToken",
   "registerCustomToken", "deployInterchainToken", "deployRemoteInterchainToken",
   "deployRemoteInterchainTokenWithMinter", "deployRemoteCanonicalInterchainToken", "linkToken"]

/-- the endpoint's body starts with the check, or calls a function that does (one level of
    delegation through another endpoint function is followed) -/
def reachesPauseCheck (e : Generated.Endpoint) : Bool :=
  e.firstCall == "require_not_paused" ||
  e.calls.any (fun c => Generated.startsWithPauseCheck.contains c) ||
  e.calls.any (fun c => Generated.itsEndpoints.any fun e2 =>
    e2.rustFn == c && e2.calls.any (fun c2 => Generated.startsWithPauseCheck.contains c2))

theorem every_pausable_endpoint_reaches_the_check :
    ∀ n ∈ pausableEndpoints, ∃ e ∈ Generated.itsEndpoints, e.name = n ∧ reachesPauseCheck e = true := by
  decide

/-- the raw functions the model guards are exactly those the source guards -/
theorem guarded_functions :
    ["deploy_interchain_token", "deploy_interchain_token_raw", "deploy_remote_interchain_token_raw", "execute",
     "interchain_transfer", "call_contract_with_interchain_token", "link_token_raw", "register_custom_token_raw"].all
      (fun f => Generated.startsWithPauseCheck.contains f) = true := by decide

/-- owner-only and operator-only annotations in the source -/
theorem privileged_annotations :
    (∀ e ∈ Generated.itsEndpoints, (e.name = "setTrustedAddress" ∨ e.name = "removeTrustedAddress") → e.onlyOwner = true) ∧
    (∀ e ∈ Generated.itsEndpoints, e.name = "setFlowLimits" → e.firstCall = "only_operator") := by
  decide

/-! ### Non-vacuity (test) -/
example : requireNotPaused { w := { its := { paused := false } } } ≠ none := by
  simp [requireNotPaused_run]

end Axelar.Props.C20
