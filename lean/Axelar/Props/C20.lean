/-
  C20 — ITS pause and privileged operations are effective and correctly gated.
-/
import Axelar.Proofs.ItsPause
import Axelar.Proofs.ItsHistory
import Axelar.Generated.ItsEndpoints
namespace Axelar.Props.C20
open Axelar Axelar.ItsW Axelar.Its Codec

/-! ### While paused every pausable operation fails (= the transaction is rolled back: no state
    change, no value moved), for all callers, arguments, payments and world states. -/

theorem execute_paused (C : Crypto) (cx : ICtx) (a b c d : Bytes) (t : Tx) (h : t.w.its.paused = true) :
    execute C cx a b c d t = none := by
  simp only [execute, run_bind, run_require]
  by_cases he : cx.esdt.isEmpty = true
  · simp [he, requireNotPaused_paused t h]
  · simp [he]

theorem interchainTransfer_paused (C : Crypto) (cx : ICtx) (tid ch ad : Bytes) (data : Option Bytes)
    (gas : Nat) (t : Tx) (h : t.w.its.paused = true) :
    interchainTransfer C cx tid ch ad data gas t = none := by
  simp [interchainTransfer, requireNotPaused_paused t h]

theorem deployInterchainTokenRaw_paused (C : Crypto) (cx : ICtx) (s ch n sy : Bytes) (d : Nat) (m : Bytes)
    (v : Nat) (t : Tx) (h : t.w.its.paused = true) :
    deployInterchainTokenRaw C cx s ch n sy d m v t = none := by
  simp [deployInterchainTokenRaw, requireNotPaused_paused t h]

theorem registerCustomTokenRaw_paused (C : Crypto) (cx : ICtx) (s tok : Bytes) (ty : Nat) (lp : Bytes)
    (t : Tx) (h : t.w.its.paused = true) : registerCustomTokenRaw C cx s tok ty lp t = none := by
  simp [registerCustomTokenRaw, requireNotPaused_paused t h]

theorem linkTokenRaw_paused (C : Crypto) (cx : ICtx) (s ch dt : Bytes) (ty : Nat) (lp : Bytes) (g : Nat)
    (t : Tx) (h : t.w.its.paused = true) : linkTokenRaw C cx s ch dt ty lp g t = none := by
  simp [linkTokenRaw, requireNotPaused_paused t h]

theorem deployRemoteInterchainTokenRaw_paused (C : Crypto) (cx : ICtx) (s ch dm sender : Bytes)
    (t : Tx) (h : t.w.its.paused = true) : deployRemoteInterchainTokenRaw C cx s ch dm sender t = none := by
  simp [deployRemoteInterchainTokenRaw, requireNotPaused_paused t h]

theorem factoryDeployInterchainToken_paused (C : Crypto) (cx : ICtx) (salt n sy : Bytes) (d sup : Nat)
    (m : Bytes) (t : Tx) (h : t.w.its.paused = true) :
    factoryDeployInterchainToken C cx salt n sy d sup m t = none := by
  simp [factoryDeployInterchainToken, requireNotPaused_paused t h]

/-- steps before a pause check cannot disturb it: synchronous sub-calls go to other contracts,
    which never write the service's own storage (`subcall_keeps_its`, Proofs/ItsMonad.lean) -/
theorem subcalls_do_not_touch_service_storage (C : Crypto) (cx : ICtx) (dst : Bytes) (f : String) (e : Nat)
    (es : List (Bytes × Nat × Nat)) (args : List Bytes) (t t' : Tx) (rs : List Bytes)
    (h : subcall C cx dst f e es args t = some (rs, t')) : t'.w.its = t.w.its :=
  subcall_keeps_its C cx dst f e es args t t' rs h

/-! ### Tie to the source: which Rust functions start with the pause check, and that every
    pausable endpoint reaches one of them -/

def pausableEndpoints : List String := ItsW.pausableEndpoints

/-- the endpoint's body starts with the check, or calls a function that does (one level of
    delegation through another endpoint function is followed) -/
def reachesPauseCheck (e : Generated.Endpoint) : Bool :=
  e.firstCall == "require_not_paused" ||
  e.calls.any (fun c => Generated.startsWithPauseCheck.contains c) ||
  e.calls.any (fun c => Generated.itsEndpoints.any fun e2 =>
    e2.rustFn == c && e2.calls.any (fun c2 => Generated.startsWithPauseCheck.contains c2))

theorem every_pausable_endpoint_reaches_the_check :
    ∀ n ∈ pausableEndpoints, ∃ e ∈ Generated.itsEndpoints, e.name = n ∧ reachesPauseCheck e = true := by
  decide

/-- the endpoints that do their work themselves START with the pause check (directly, or by first calling a
    function that does) — stated through the exported endpoint names, so that renaming a Rust function is harmless -/
theorem direct_endpoints_start_with_the_check :
    ∀ n ∈ ["execute", "interchainTransfer", "callContractWithInterchainToken", "deployInterchainToken"],
      ∃ e ∈ Generated.itsEndpoints, e.name = n ∧ Generated.startsWithPauseCheck.contains e.rustFn = true := by
  decide

/-- the second transaction of a remote deployment (the callback of the token lookup) reaches a function that
    starts with the pause check before it sends anything -/
theorem a_callback_reaches_the_check :
    ∃ cb ∈ Generated.itsCallbacks, cb.calls.any (fun c => Generated.startsWithPauseCheck.contains c) = true := by
  decide

/-- owner-only and operator-only annotations in the source -/
theorem privileged_annotations :
    (∀ e ∈ Generated.itsEndpoints, (e.name = "setTrustedAddress" ∨ e.name = "removeTrustedAddress") → e.onlyOwner = true) ∧
    (∀ e ∈ Generated.itsEndpoints, e.name = "setFlowLimits" → e.firstCall = "only_operator") := by
  decide


/-! ### At the level of the endpoint dispatcher and of the chain -/

/-- **While paused, each of the ten pausable endpoints fails** — for every caller, argument list,
    payment and world state (model of the whole dispatcher, not of one flow). -/
theorem paused_endpoint_fails (C : Crypto) (cx : ICtx) (func : String) (args : List Bytes) (t : Tx)
    (hf : func ∈ pausableEndpoints) (hp : t.w.its.paused = true) : call C cx func args t = none :=
  call_paused C cx func args t hf hp

/-- … and therefore a transaction that calls one of them while the service is paused is rolled
    back as a whole: **the world after it is the world before it** (no state changed, no value
    moved — not even the attached payment), whoever sends it and whatever it carries. -/
theorem paused_transaction_changes_nothing (C : Crypto) (w : World) (src dst : Bytes) (func : String)
    (egld : Nat) (esdt : List (Bytes × Nat × Nat)) (args : List Bytes)
    (hk : w.kind dst = some .its) (hp : w.its.paused = true) (hf : func ∈ pausableEndpoints) :
    World.tx C w src dst func egld esdt args = (w, .fail) := by
  unfold World.tx
  cases hpay : World.pay w src dst egld esdt with
  | none => rfl
  | some w1 =>
    simp only [hk]
    have hi := World.pay_its _ _ _ _ _ _ hpay
    obtain ⟨_, hk1, _, _⟩ := World.pay_gw _ _ _ _ _ _ hpay
    have hc : World.callContract C w1 src dst func egld esdt args = none := by
      unfold World.callContract
      rw [hk1, hk]
      simp only [World.runIts]
      rw [call_paused C _ func args { w := w1 } hf (by rw [hi]; exact hp)]
    rw [hc]

set_option maxRecDepth 4000 in
/-- **Only the owner can pause, unpause, or add and remove trusted addresses**: a successful call
    of one of these four endpoints was made by the contract's owner. -/
theorem owner_operation_needs_owner (C : Crypto) (cx : ICtx) (func : String) (args : List Bytes) (t : Tx)
    (r : List Bytes) (t' : Tx) (h : call C cx func args t = some (r, t')) (hf : func ∈ ownerOps) :
    cx.caller = cx.owner := by
  simp only [call, run_bind, run_getI] at h
  split at h
  all_goals (try (exfalso; simp [ownerOps] at hf; done))
  split at h
  · simp at h
  · split at h
    all_goals (try (exfalso; simp [ownerOps] at hf; done))
    all_goals (
      by_cases ho : (cx.caller == cx.owner) = true
      · simpa using ho
      · simp [ItsW.unit, ho] at h)

set_option maxRecDepth 4000 in
/-- **Only holders of the service's operator role can set flow limits.** -/
theorem setFlowLimits_needs_operator (C : Crypto) (cx : ICtx) (args : List Bytes) (t : Tx) (r : List Bytes)
    (t' : Tx) (h : call C cx "setFlowLimits" args t = some (r, t')) : isOperator t.w.its cx.caller = true := by
  generalize hf : "setFlowLimits" = func at h
  simp only [call, run_bind, run_getI] at h
  split at h
  all_goals (try (exact absurd hf (by decide)))
  split at h
  · simp at h
  · split at h
    all_goals (try (exact absurd hf (by decide)))
    · cases htc : twoCounted args with
      | none => simp [htc] at h
      | some p =>
        by_cases ho : isOperator t.w.its cx.caller = true
        · exact ho
        · simp [htc, ItsW.unit, ho] at h
    · simp at h

/-- **Over every schedule**: if an operation changed the pause flag or the trusted-address table,
    it was a call of one of the four owner endpoints of the service made by the service's owner
    (as a transaction, or as the delivery of a call the owner's contract had registered). -/
theorem pause_flag_and_trusted_table_change_only_by_owner (C : Crypto) (w : World) (op : World.Op)
    (h : (World.step C w op).its.paused ≠ w.its.paused ∨ (World.step C w op).its.trusted ≠ w.its.trusted) :
    ∃ src dst func, World.Runs w op src dst func ∧ w.kind dst = some .its ∧ src = w.owner dst ∧
      func ∈ ownerOps := by
  rcases World.step_change C w op with hc | ⟨src, dst, func, hr, hk, ho, hf, _⟩ | ⟨src, dst, func, _, _, _, hs⟩
  · rcases h with h | h
    · exact absurd hc.paused h
    · exact absurd hc.trusted h
  · exact ⟨src, dst, func, hr, hk, ho, hf⟩
  · rcases h with h | h
    · exact absurd hs.paused h
    · exact absurd hs.trusted h

/-- **After unpausing, behaviour is as before**: the service's behaviour is a function of its
    storage, and pause followed by unpause restores the storage exactly. -/
theorem pause_then_unpause_restores (C : Crypto) (cx : ICtx) (t : Tx) (ho : cx.caller = cx.owner)
    (hn : notPayable cx = true) (hu : t.w.its.paused = false) :
    ∃ t1 t2, call C cx "pause" [] t = some ([], t1) ∧ t1.w.its.paused = true ∧
      call C cx "unpause" [] t1 = some ([], t2) ∧ t2.w.its = t.w.its := by
  have hc : (cx.caller == cx.owner) = true := by simp [ho]
  refine ⟨{ t with w := { t.w with its := { t.w.its with paused := true } } },
          { t with w := { t.w with its := { t.w.its with paused := false } } }, ?_, rfl, ?_, ?_⟩
  · simp [call, hn, hc, ItsW.unit]; rfl
  · simp [call, hn, hc, ItsW.unit]; rfl
  · cases hs : t.w.its
    simp_all

/-! ### Non-vacuity (test) -/
example : requireNotPaused { w := { its := { paused := false } } } ≠ none := by
  simp [requireNotPaused_run]

end Axelar.Props.C20
