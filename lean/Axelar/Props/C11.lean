/-
  C11 — Governance time lock: only scheduled, matured, uncancelled proposals run, once.
  Full strength does NOT hold on the unchanged code (finding F3): see
  `cancel_between_dispatch_and_failure_is_lost`; the part that holds is stated as `…_partial`.
-/
import Axelar.Model.Governance
import Axelar.Proofs.BytesLemmas
import Axelar.Proofs.GovHistory
namespace Axelar.Props.C11
open Axelar Axelar.Governance Codec

theorem prepareDispatch_ok (ctx : Ctx) (cd : Bytes) (b : Bool) (name : Bytes) (args : List Bytes)
    (h : prepareDispatch ctx cd b = .ok (name, args)) :
    ∃ minGas, top decCallData cd = some (name, args, minGas) := by
  unfold prepareDispatch at h
  cases hd : top decCallData cd with
  | none => simp [hd] at h
  | some v =>
    obtain ⟨n, a, g⟩ := v
    simp only [hd] at h
    cases hg : gasOk ctx b g with
    | error e => simp [hg] at h
    | ok u => simp only [hg] at h; cases h; exact ⟨g, rfl⟩

/-- **Dispatch needs a set, matured eta and clears it.**  A successful `executeProposal` for
    (target, callData, value): the proposal's eta was non-zero and reached, it is cleared, and
    the registered call is exactly the decoded call data to that target with that value; the
    callback closure remembers the eta. -/
theorem dispatch_requires_matured_eta (C : Crypto) (st : State) (ctx : Ctx) (target callData : Bytes)
    (value : Nat) (out : Out) (h : executeProposal C st ctx target callData value = .ok out) :
    let hash := proposalHash C target callData value
    st.eta hash ≠ 0 ∧ st.eta hash ≤ ctx.now ∧ out.st.eta hash = 0 ∧
    (∀ h', h' ≠ hash → out.st.eta h' = st.eta h') ∧
    out.st.approvals = st.approvals ∧ out.st.refunds = st.refunds ∧
    ∃ name args minGas, top decCallData callData = some (name, args, minGas) ∧
      out.dispatch = some ⟨target, name, value, args, hash, st.eta hash, ctx.caller, anyPayment ctx, false⟩ := by
  simp only [executeProposal] at h
  split at h
  · cases h
  · rename_i st' eta hf
    simp only [finalizeTimeLock] at hf
    split at hf
    · cases hf
    · rename_i h0
      split at hf
      · cases hf
      · rename_i hnow
        cases hf
        split at h
        · cases h
        · rename_i name args hp
          cases h
          obtain ⟨minGas, hd⟩ := prepareDispatch_ok ctx callData true name args hp
          exact ⟨h0, by omega, by simp [upd], fun h' hne => by simp [upd, hne], rfl, rfl,
            name, args, minGas, hd, rfl⟩

/-- **Scheduling**: refused when the proposal is already scheduled; otherwise the stored eta is
    the requested one raised to at least `now + minimum delay`. -/
theorem schedule_effect (st : State) (now : Nat) (hash : Bytes) (eta : Nat) (st' : State) (eta' : Nat)
    (h : scheduleTimeLock st now hash eta = .ok (st', eta')) :
    st.eta hash = 0 ∧ eta' ≥ now + st.minDelay ∧ eta' ≥ eta ∧ st'.eta hash = eta' ∧
    (∀ h', h' ≠ hash → st'.eta h' = st.eta h') := by
  simp only [scheduleTimeLock] at h
  split at h
  · cases h
  · rename_i h0
    split at h
    · cases h
      refine ⟨by simpa using h0, ?_, ?_, by simp [upd], fun h' hne => by simp [upd, hne]⟩
      · split <;> omega
      · split <;> omega
    · cases h

theorem already_scheduled_rejected (st : State) (now : Nat) (hash : Bytes) (eta : Nat)
    (h : st.eta hash ≠ 0) : scheduleTimeLock st now hash eta = .error .alreadyScheduled := by
  simp [scheduleTimeLock, h]

/-- **Outcome of the dispatched call**: on success nothing is restored (the proposal is gone);
    on failure the eta captured at dispatch time is written back. -/
theorem callback_effect (st : State) (d : Dispatch) (results : List Bytes) (hd : d.operatorProposal = false) :
    (callback st d true results).st = st ∧
    (callback st d false results).st.eta d.hash = d.eta ∧
    (∀ h', h' ≠ d.hash → (callback st d false results).st.eta h' = st.eta h') := by
  refine ⟨by simp [callback], ?_, ?_⟩
  · simp only [callback, hd, Bool.false_eq_true, if_false]
    have : ∀ (s : State) (p : Payments), (creditPayments s d.caller p).eta = s.eta := by
      intro s p
      cases p with
      | egld v => rfl
      | esdt l =>
        simp only [creditPayments]
        induction l generalizing s with
        | nil => rfl
        | cons x l ih => simp only [List.foldl_cons]; rw [ih]
    simp [upd]
  · intro h' hne
    simp only [callback, hd, Bool.false_eq_true, if_false]
    have : ∀ (s : State) (p : Payments), (creditPayments s d.caller p).eta = s.eta := by
      intro s p
      cases p with
      | egld v => rfl
      | esdt l =>
        simp only [creditPayments]
        induction l generalizing s with
        | nil => rfl
        | cons x l ih => simp only [List.foldl_cons]; rw [ih]
    simp [upd, hne, this]

/-- **FINDING F3 (negation of "not cancelled since").**  A cancel command processed between the
    dispatch and the failure callback is lost: for ANY state in which P is scheduled and
    matured, after dispatch, cancel and a failed call, P is scheduled again with its old eta —
    so it can be dispatched once more although it was cancelled. -/
theorem cancel_between_dispatch_and_failure_is_lost (C : Crypto) (st : State) (ctx : Ctx)
    (target callData : Bytes) (value : Nat) (out : Out) (cancelEta : Nat)
    (h : executeProposal C st ctx target callData value = .ok out) :
    ∃ d stCancelled evs,
      out.dispatch = some d ∧
      processCommand C out.st ctx.now .cancel target callData value cancelEta = .ok (stCancelled, evs) ∧
      stCancelled.eta (proposalHash C target callData value) = 0 ∧
      (callback stCancelled d false []).st.eta (proposalHash C target callData value) =
        st.eta (proposalHash C target callData value) ∧
      st.eta (proposalHash C target callData value) ≠ 0 := by
  obtain ⟨h0, _, _, _, _, _, name, args, minGas, _, hd⟩ :=
    dispatch_requires_matured_eta C st ctx target callData value out h
  refine ⟨_, _, _, hd, rfl, by simp [upd], ?_, h0⟩
  have := (callback_effect { out.st with eta := upd out.st.eta (proposalHash C target callData value) 0 }
    ⟨target, name, value, args, proposalHash C target callData value,
      st.eta (proposalHash C target callData value), ctx.caller, anyPayment ctx, false⟩ [] rfl).2.1
  exact this

/-- **Partial (what does hold).**  If no command touches P between dispatch and callback, the
    failure callback restores exactly the state of P before the dispatch, and the success
    callback leaves P unscheduled. -/
theorem failure_restores_same_eta_partial (C : Crypto) (st : State) (ctx : Ctx)
    (target callData : Bytes) (value : Nat) (out : Out)
    (h : executeProposal C st ctx target callData value = .ok out) :
    ∃ d, out.dispatch = some d ∧
      (callback out.st d false []).st.eta (proposalHash C target callData value) =
        st.eta (proposalHash C target callData value) ∧
      (callback out.st d true []).st.eta (proposalHash C target callData value) = 0 := by
  obtain ⟨_, _, h1, _, _, _, name, args, minGas, _, hd⟩ :=
    dispatch_requires_matured_eta C st ctx target callData value out h
  refine ⟨_, hd, ?_, ?_⟩
  · exact (callback_effect out.st _ [] rfl).2.1
  · rw [(callback_effect out.st _ [] rfl).1]; exact h1

/-- **The proposal hash binds target, call data and value** (collision-or-equal). -/
theorem proposalHash_binding (C : Crypto) (t t' cd cd' : Bytes) (v v' : Nat)
    (ht : t.length = t'.length) (hcd : cd.length < 2 ^ 32) (hcd' : cd'.length < 2 ^ 32)
    (hv : (natBE v).length < 2 ^ 32) (hv' : (natBE v').length < 2 ^ 32)
    (h : proposalHash C t cd v = proposalHash C t' cd' v') :
    (t = t' ∧ cd = cd' ∧ v = v') ∨ ∃ a b, a ≠ b ∧ C.H a = C.H b := by
  unfold proposalHash at h
  by_cases he : encProposal t cd v = encProposal t' cd' v'
  · left
    unfold encProposal at he
    simp only [List.append_assoc] at he
    obtain ⟨e1, he1⟩ := List.append_inj he ht
    obtain ⟨e2, he2⟩ := nestBuf_append_inj _ _ _ _ hcd hcd' he1
    unfold nestBig at he2
    have he3 : nestBuf (natBE v) ++ [] = nestBuf (natBE v') ++ [] := by simpa using he2
    obtain ⟨e3, _⟩ := nestBuf_append_inj _ _ _ _ hv hv' he3
    have := congrArg beNat e3
    rw [beNat_natBE, beNat_natBE] at this
    exact ⟨e1, e2, this⟩
  · right; exact ⟨_, _, he, h⟩

/-! ### Counting, over every history -/

/-- **Each scheduling authorises at most one successful dispatch** — for every history of the
    contract from deployment: any interleaving of authenticated commands (schedule, cancel,
    operator approvals), dispatches by anyone, callbacks of the dispatched calls (one per
    dispatch, in any order, succeeding or failing as the schedule dictates) and every other
    endpoint call.  Per proposal: (1 if it is currently scheduled) + (dispatches in flight) +
    (dispatches whose call succeeded) ≤ (number of accepted schedule commands).  In particular
    a proposal that was never scheduled is never live, never in flight and never executed — and
    this accounting survives finding F3 (a cancel lost in the window does not create an extra
    dispatch beyond the schedulings). -/
theorem successful_dispatches_never_exceed_schedulings (C : Crypto) (st0 : State) (h0 : ∀ x, st0.eta x = 0)
    (h : Hist) (hr : Reach C { st := st0 } h) (x : Bytes) :
    live h.st x + flying h.inflight x + h.succeeded x ≤ h.scheduled x :=
  reach_inv C _ _ hr (init_inv st0 h0) x

theorem never_scheduled_never_dispatched (C : Crypto) (st0 : State) (h0 : ∀ x, st0.eta x = 0)
    (h : Hist) (hr : Reach C { st := st0 } h) (x : Bytes) (hs : h.scheduled x = 0) :
    h.st.eta x = 0 ∧ h.succeeded x = 0 ∧ flying h.inflight x = 0 := by
  have := successful_dispatches_never_exceed_schedulings C st0 h0 h hr x
  rw [hs] at this
  refine ⟨?_, by omega, by omega⟩
  have hl : live h.st x = 0 := by omega
  unfold live at hl
  split at hl
  · cases hl
  · rename_i hn; simpa using hn

/-! ### Non-vacuity (test): a scheduled, matured proposal exists -/
example : (finalizeTimeLock { eta := fun _ => 50 } 60 [1]).toOption.map (·.2) = some 50 := by
  simp [finalizeTimeLock, Except.toOption]

end Axelar.Props.C11
