/-
  C09 — Token manager flow limit bounds net flow per six-hour epoch.
-/
import Axelar.Proofs.TokenManagerProofs
namespace Axelar.Props.C09
open Axelar Axelar.TokenManager Codec

/-- net-flow bound for epoch `e` under limit `L` -/
def NetInv (L : Nat) (st : State) (e : Nat) : Prop :=
  st.flowIn e ≤ st.flowOut e + L ∧ st.flowOut e ≤ st.flowIn e + L

/-- **Every accepted inbound transfer** under a non-zero limit is at most the limit and leaves
    the net inbound flow of the current epoch at most the limit. -/
theorem accepted_give_within_limit (st : State) (ctx : Ctx) (dest : Bytes) (amount : Nat) (out : Out)
    (h : giveToken st ctx dest amount = .ok out) (hL : st.flowLimit ≠ 0) :
    amount ≤ st.flowLimit ∧
    out.st.flowIn (epochOf ctx.now) = st.flowIn (epochOf ctx.now) + amount ∧
    out.st.flowIn (epochOf ctx.now) ≤ out.st.flowOut (epochOf ctx.now) + st.flowLimit ∧
    out.st.flowLimit = st.flowLimit := by
  obtain ⟨_, hf, _⟩ := giveToken_spec st ctx dest amount out h
  rcases addFlowIn_spec _ _ _ _ hf with ⟨h0, _⟩ | ⟨_, a, b, e⟩
  · exact absurd h0 hL
  · rw [e]; exact ⟨a, by simp [upd], by simpa [upd] using b, rfl⟩

/-- **Every accepted outbound transfer**, symmetrically. -/
theorem accepted_take_within_limit (st : State) (ctx : Ctx) (out : Out)
    (h : takeToken st ctx = .ok out) (hL : st.flowLimit ≠ 0) :
    ∃ amount, out.results = [encNat amount] ∧ amount ≤ st.flowLimit ∧
    out.st.flowOut (epochOf ctx.now) = st.flowOut (epochOf ctx.now) + amount ∧
    out.st.flowOut (epochOf ctx.now) ≤ out.st.flowIn (epochOf ctx.now) + st.flowLimit ∧
    out.st.flowLimit = st.flowLimit := by
  obtain ⟨_, _, tok, amount, _, hf, hr, _⟩ := takeToken_spec st ctx out h
  rcases addFlowOut_spec _ _ _ _ hf with ⟨h0, _⟩ | ⟨_, a, b, e⟩
  · exact absurd h0 hL
  · rw [e]; exact ⟨amount, hr, a, by simp [upd], by simpa [upd] using b, rfl⟩

/-- **One step preserves the net-flow bound** for every epoch, as long as the call does not
    change the limit (any endpoint, any caller, any arguments, any time). -/
theorem step_preserves_bound (st : State) (ctx : Ctx) (func : String) (args : List Bytes) (out : Out)
    (h : call st ctx func args = .ok out) (hsame : out.st.flowLimit = st.flowLimit) (e : Nat)
    (hinv : NetInv st.flowLimit st e) : NetInv st.flowLimit out.st e := by
  rcases call_cases st ctx func args out h with
    ⟨d, a, _, hg⟩ | ⟨_, ht⟩ | ⟨l, _, hs⟩ | ⟨a, amt, _, hm⟩ | ⟨_, hb⟩ | ⟨m, n, s, d, _, hd⟩ | ⟨r, hr, hro⟩ | ⟨he, _, _⟩
  · obtain ⟨_, hf, _⟩ := giveToken_spec st ctx d a out hg
    rcases addFlowIn_spec _ _ _ _ hf with ⟨_, e1⟩ | ⟨_, _, b, e1⟩
    · rw [e1]; exact hinv
    · rw [e1]; unfold NetInv at *; simp only [upd]
      by_cases he : e = epochOf ctx.now
      · subst he; simp only [if_true]; omega
      · simp only [he, if_false]; exact hinv
  · obtain ⟨_, _, tok, amount, _, hf, _, _⟩ := takeToken_spec st ctx out ht
    rcases addFlowOut_spec _ _ _ _ hf with ⟨_, e1⟩ | ⟨_, _, b, e1⟩
    · rw [e1]; exact hinv
    · rw [e1]; unfold NetInv at *; simp only [upd]
      by_cases he : e = epochOf ctx.now
      · subst he; simp only [if_true]; omega
      · simp only [he, if_false]; exact hinv
  · unfold setFlowLimit at hs
    split at hs
    · cases hs
    · cases hs; exact hinv
  · unfold mint at hm
    repeat' (first | (cases hm; done) | (cases hm; exact hinv) | split at hm)
  · unfold burn at hb
    repeat' (first | (cases hb; done) | (cases hb; exact hinv) | split at hb)
  · unfold deployInterchainToken at hd
    repeat' (first | (cases hd; done) | (cases hd; exact hinv) | split at hd)
  · have hsr : SameRest st out.st := by
      refine (roleOut_same st r out ?_ hro).1
      intro st' evs hre
      cases hr with
      | addFL a _ => cases hre; exact addRole_same _ _ _
      | removeFL a _ => cases hre; exact removeRole_same _ _ _
      | transferFL a b _ => exact transferRole_same _ _ _ _ _ _ hre
      | transferOp a _ => exact transferRole_same _ _ _ _ _ _ hre
      | proposeOp a _ => exact proposeRole_same _ _ _ _ _ _ hre
      | acceptOp a => exact acceptRole_same _ _ _ _ _ _ hre
      | transferMint a _ => exact transferRole_same _ _ _ _ _ _ hre
      | proposeMint a _ => exact proposeRole_same _ _ _ _ _ _ hre
      | acceptMint a => exact acceptRole_same _ _ _ _ _ _ hre
    unfold NetInv at *
    rw [hsr.flowIn, hsr.flowOut]; exact hinv
  · rw [he]; exact hinv

/-- a transaction in a history: context, endpoint, arguments; failures leave the state -/
structure TCall where
  ctx : Ctx
  func : String
  args : List Bytes

def stepCall (st : State) (c : TCall) : State :=
  match call st c.ctx c.func c.args with
  | .ok out => out.st
  | .error _ => st

/-- the limit is `L` in every state along the run -/
def limitConstant (L : Nat) : State → List TCall → Prop
  | st, [] => st.flowLimit = L
  | st, c :: cs => st.flowLimit = L ∧ limitConstant L (stepCall st c) cs

/-- **Under an unchanged limit the net flow in either direction never exceeds it**, for every
    epoch, over every history of calls (transfers in and out of any amounts by anyone, role
    operations, epoch boundaries), starting from any state satisfying the bound (in
    particular a freshly deployed manager, whose counters are all zero). -/
theorem bound_over_histories (L : Nat) (st : State) (cs : List TCall) (e : Nat)
    (hconst : limitConstant L st cs) (hinv : NetInv L st e) :
    NetInv L (cs.foldl stepCall st) e := by
  induction cs generalizing st with
  | nil => exact hinv
  | cons c cs ih =>
    obtain ⟨hl, hrest⟩ := hconst
    simp only [List.foldl_cons]
    refine ih _ hrest ?_
    unfold stepCall
    cases hc : call st c.ctx c.func c.args with
    | error err => exact hinv
    | ok out =>
      simp only
      have hl' : out.st.flowLimit = st.flowLimit := by
        have := (by cases cs with
          | nil => exact hrest
          | cons c' cs' => exact hrest.1 : (stepCall st c).flowLimit = L)
        unfold stepCall at this; rw [hc] at this; simp only at this; rw [this, hl]
      have := step_preserves_bound st c.ctx c.func c.args out hc hl' e (by rw [hl]; exact hinv)
      rw [hl] at this; exact this

theorem fresh_manager_satisfies_bound (L : Nat) (st : State) (e : Nat)
    (h0 : st.flowIn e = 0) (h1 : st.flowOut e = 0) : NetInv L st e := by
  unfold NetInv; omega

/-- **Counters are per epoch**: a call at time `now` touches only the counters of
    `now / EPOCH_TIME`; all other epochs' counters are unchanged (so a new epoch starts at 0). -/
theorem only_current_epoch_touched (st : State) (ctx : Ctx) (func : String) (args : List Bytes)
    (out : Out) (h : call st ctx func args = .ok out) (e : Nat) (he : e ≠ epochOf ctx.now) :
    out.st.flowIn e = st.flowIn e ∧ out.st.flowOut e = st.flowOut e := by
  rcases call_cases st ctx func args out h with
    ⟨d, a, _, hg⟩ | ⟨_, ht⟩ | ⟨l, _, hs⟩ | ⟨a, amt, _, hm⟩ | ⟨_, hb⟩ | ⟨m, n, s, d, _, hd⟩ | ⟨r, hr, hro⟩ | ⟨he', _, _⟩
  · obtain ⟨_, hf, _⟩ := giveToken_spec st ctx d a out hg
    rcases addFlowIn_spec _ _ _ _ hf with ⟨_, e1⟩ | ⟨_, _, _, e1⟩ <;> rw [e1] <;> simp [upd, he]
  · obtain ⟨_, _, tok, amount, _, hf, _, _⟩ := takeToken_spec st ctx out ht
    rcases addFlowOut_spec _ _ _ _ hf with ⟨_, e1⟩ | ⟨_, _, _, e1⟩ <;> rw [e1] <;> simp [upd, he]
  · unfold setFlowLimit at hs
    split at hs
    · cases hs
    · cases hs; exact ⟨rfl, rfl⟩
  · unfold mint at hm
    repeat' (first | (cases hm; done) | (cases hm; exact ⟨rfl, rfl⟩) | split at hm)
  · unfold burn at hb
    repeat' (first | (cases hb; done) | (cases hb; exact ⟨rfl, rfl⟩) | split at hb)
  · unfold deployInterchainToken at hd
    repeat' (first | (cases hd; done) | (cases hd; exact ⟨rfl, rfl⟩) | split at hd)
  · have hsr : SameRest st out.st := by
      refine (roleOut_same st r out ?_ hro).1
      intro st' evs hre
      cases hr with
      | addFL a _ => cases hre; exact addRole_same _ _ _
      | removeFL a _ => cases hre; exact removeRole_same _ _ _
      | transferFL a b _ => exact transferRole_same _ _ _ _ _ _ hre
      | transferOp a _ => exact transferRole_same _ _ _ _ _ _ hre
      | proposeOp a _ => exact proposeRole_same _ _ _ _ _ _ hre
      | acceptOp a => exact acceptRole_same _ _ _ _ _ _ hre
      | transferMint a _ => exact transferRole_same _ _ _ _ _ _ hre
      | proposeMint a _ => exact proposeRole_same _ _ _ _ _ _ hre
      | acceptMint a => exact acceptRole_same _ _ _ _ _ _ hre
    rw [hsr.flowIn, hsr.flowOut]; exact ⟨rfl, rfl⟩
  · rw [he']; exact ⟨rfl, rfl⟩

/-- **With a limit of zero no transfer is ever rejected for flow reasons** (and nothing is counted). -/
theorem zero_limit_never_rejects (st : State) (now amount : Nat) (h : st.flowLimit = 0) :
    addFlowIn st now amount = .ok st ∧ addFlowOut st now amount = .ok st := by
  simp [addFlowIn, addFlowOut, h]

/-- **Only flow limiters change the limit.** -/
theorem limit_changes_only_by_flow_limiter (st : State) (ctx : Ctx) (func : String) (args : List Bytes)
    (out : Out) (h : call st ctx func args = .ok out) (hne : out.st.flowLimit ≠ st.flowLimit) :
    func = "setFlowLimit" ∧ intersects (st.roles ctx.caller) FLOW_LIMITER = true := by
  rcases call_cases st ctx func args out h with
    ⟨d, a, _, hg⟩ | ⟨_, ht⟩ | ⟨l, hf, hs⟩ | ⟨a, amt, _, hm⟩ | ⟨_, hb⟩ | ⟨m, n, s, d, _, hd⟩ | ⟨r, hr, hro⟩ | ⟨he', _, _⟩
  · obtain ⟨_, hf, _⟩ := giveToken_spec st ctx d a out hg
    rcases addFlowIn_spec _ _ _ _ hf with ⟨_, e1⟩ | ⟨_, _, _, e1⟩ <;> (rw [e1] at hne; exact absurd rfl hne)
  · obtain ⟨_, _, tok, amount, _, hf, _, _⟩ := takeToken_spec st ctx out ht
    rcases addFlowOut_spec _ _ _ _ hf with ⟨_, e1⟩ | ⟨_, _, _, e1⟩ <;> (rw [e1] at hne; exact absurd rfl hne)
  · unfold setFlowLimit at hs
    split at hs
    · cases hs
    · rename_i hr; exact ⟨hf, by simpa [onlyRole] using hr⟩
  · unfold mint at hm
    repeat' (first | (cases hm; done) | (cases hm; exact absurd rfl hne) | split at hm)
  · unfold burn at hb
    repeat' (first | (cases hb; done) | (cases hb; exact absurd rfl hne) | split at hb)
  · unfold deployInterchainToken at hd
    repeat' (first | (cases hd; done) | (cases hd; exact absurd rfl hne) | split at hd)
  · have hsr : SameRest st out.st := by
      refine (roleOut_same st r out ?_ hro).1
      intro st' evs hre
      cases hr with
      | addFL a _ => cases hre; exact addRole_same _ _ _
      | removeFL a _ => cases hre; exact removeRole_same _ _ _
      | transferFL a b _ => exact transferRole_same _ _ _ _ _ _ hre
      | transferOp a _ => exact transferRole_same _ _ _ _ _ _ hre
      | proposeOp a _ => exact proposeRole_same _ _ _ _ _ _ hre
      | acceptOp a => exact acceptRole_same _ _ _ _ _ _ hre
      | transferMint a _ => exact transferRole_same _ _ _ _ _ _ hre
      | proposeMint a _ => exact proposeRole_same _ _ _ _ _ _ hre
      | acceptMint a => exact acceptRole_same _ _ _ _ _ _ hre
    exact absurd hsr.flowLimit hne
  · rw [he'] at hne; exact absurd rfl hne

theorem epoch_time_is_six_hours : Generated.EPOCH_TIME = 6 * 3600 := by decide

/-! ### Non-vacuity (tests) -/
example : addFlow 10 4 1 7 = some 11 ∧ addFlow 10 4 1 8 = none ∧ addFlow 10 0 5 11 = none := by decide

end Axelar.Props.C09
