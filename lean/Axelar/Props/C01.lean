/-
  C01 — Gateway approves messages only under a valid weighted-signer quorum proof.
  Property theorems only; helper lemmas live in Axelar/Proofs/GatewayProofs.lean.
  `C : Crypto` (hash and signature verification) is universally quantified everywhere: nothing
  is assumed about Keccak-256 or ed25519.
-/
import Axelar.Proofs.GatewayProofs
namespace Axelar.Props.C01
open Axelar Axelar.Gateway Axelar.GatewaySpec Codec

/-- **Only-if.** A successful `approveMessages` call carried a proof whose signer set is in the
    gateway's registry at most `retention` epochs back, with one signature slot per signer, and
    the supplied signatures that verify — position by position, against the digest binding this
    gateway's domain separator, that set's hash, the ApproveMessages tag and the raw batch
    bytes — have combined weight ≥ the set's threshold. -/
theorem approval_requires_quorum (C : Crypto) (st st' : State) (ctx : Ctx) (args rs : List Bytes)
    (evs : List Ev) (h : call C st ctx "approveMessages" args = .ok (st', rs, evs)) :
    ∃ rawMsgs rawProof, args = [rawMsgs, rawProof] ∧ approveSound C st rawMsgs rawProof = true := by
  obtain ⟨m, p, rfl, ha⟩ := approve_call_inv C st st' ctx args rs evs h
  refine ⟨m, p, rfl, ?_⟩
  obtain ⟨proof, msgs, b, hp, _, _, hv, _⟩ := approveMessages_spec C st st' m p evs ha
  obtain ⟨a1, a2, a3, a4, a5, _⟩ := validateProof_ok_iff_sound C st _ proof b hv
  simp only [approveSound, hp, inWindow, proofDigest, Bool.and_eq_true, decide_eq_true_eq,
    Bool.not_eq_true']
  exact ⟨⟨⟨⟨a1, a2⟩, a3⟩, a4⟩, decide_eq_true a5⟩

/-- **Conversely.** For a well-formed non-empty batch, a proof from an in-window registered set
    (threshold > 0, one slot per signer) in which *all supplied* signatures verify and their
    weight reaches the threshold is accepted. -/
theorem valid_proof_accepted (C : Crypto) (st : State) (ctx : Ctx) (rawMsgs rawProof : Bytes)
    (h : approveComplete C st rawMsgs rawProof = true) :
    ∃ st' evs, call C st ctx "approveMessages" [rawMsgs, rawProof] = .ok (st', [], evs) := by
  unfold approveComplete at h
  cases hp : top decProof rawProof with
  | none => simp [hp] at h
  | some p =>
    cases hm : many decMessage rawMsgs with
    | none => simp [hp, hm] at h
    | some msgs =>
      simp only [hp, hm, inWindow, proofDigest, Bool.and_eq_true, decide_eq_true_eq,
        Bool.not_eq_true'] at h
      obtain ⟨⟨⟨⟨⟨⟨h1, h2, h3⟩, h4⟩, h5⟩, h6⟩, h7⟩, h8⟩ := h
      have hv := validateProof_complete C st (dataHash C tagApproveMessages rawMsgs) p h2 h3 h5 h6 h4 h7 h8
      refine ⟨(approveAll C st msgs []).1, (approveAll C st msgs []).2, ?_⟩
      simp [call, approveMessages, hp, hm, h1, hv]

/-- **Nothing is written before validation**: a failing call leaves the state untouched, and a
    successful one changes nothing but message entries (no registry, epoch, operator, config). -/
theorem approval_frame (C : Crypto) (st st' : State) (ctx : Ctx) (args rs : List Bytes)
    (evs : List Ev) (h : call C st ctx "approveMessages" args = .ok (st', rs, evs)) :
    st'.epochByHash = st.epochByHash ∧ st'.hashByEpoch = st.hashByEpoch ∧ st'.epoch = st.epoch ∧
    st'.retention = st.retention ∧ st'.domain = st.domain ∧ st'.operator = st.operator := by
  obtain ⟨m, p, rfl, ha⟩ := approve_call_inv C st st' ctx args rs evs h
  obtain ⟨proof, msgs, b, _, _, _, _, he⟩ := approveMessages_spec C st st' m p evs ha
  have := approveAll_frame C st msgs []
  rw [← he] at this
  simp only at this
  exact ⟨this.2.2.2.2.2.2.2, this.2.2.2.2.2.2.1, this.2.2.2.2.1, this.1, this.2.1, this.2.2.2.1⟩

theorem failed_call_changes_nothing (C : Crypto) (st : State) (c : Call) (e : Err)
    (h : call C st c.ctx c.func c.args = .error e) : stepCall C st c = st := by
  simp [stepCall, h]

/-- **The registry is the gateway's own**: in every state reachable from any initialisation by
    any sequence of calls, a non-zero epoch recorded for a hash is the epoch at which exactly
    that hash was registered, it is at most the current epoch, and both maps agree. -/
theorem registry_invariant (C : Crypto) (now : Nat) (args : List Bytes) (st0 : State) (evs : List Ev)
    (hinit : initCall C now args = .ok (st0, evs)) (cs : List Call) :
    RegInv (run C st0 cs) := by
  have step : ∀ st c, RegInv st → RegInv (stepCall C st c) := by
    intro st c hinv
    unfold stepCall
    cases h : call C st c.ctx c.func c.args with
    | error e => exact hinv
    | ok v =>
      obtain ⟨st', rs, ev⟩ := v
      rcases call_cases C st c.ctx c.func c.args st' rs ev h with
        ⟨m, p, _, _, ha⟩ | ⟨s, p, _, _, hr⟩ | ⟨chain, id, src, ph, b, _, _, _, hv, _⟩ | ⟨op, _, _, _, ht⟩ |
        ⟨_, _, op, _, ss, _, _, _, _, _, hu⟩ | rfl
      · obtain ⟨proof, msgs, b, _, _, _, _, he⟩ := approveMessages_spec C st st' m p ev ha
        have hf := approveAll_frame C st msgs []
        rw [← he] at hf
        simp only at hf
        obtain ⟨_, _, _, _, e5, _, e7, e8⟩ := hf
        exact ⟨fun h hh => by rw [e8] at hh ⊢; rw [e7, e5]; exact hinv.fwd h hh,
               fun e h1 h2 => by rw [e5] at h2; rw [e7, e8]; exact hinv.bwd e h1 h2⟩
      · obtain ⟨proof, ws, il, _, _, _, _, _, hraw⟩ := rotateSigners_spec C st st' c.ctx s p ev hr
        exact rotateSignersRaw_regInv C st st' _ ws _ ev hinv hraw
      · simp only [validateMessage] at hv
        split at hv <;> (cases hv; exact ⟨hinv.fwd, hinv.bwd⟩)
      · unfold transferOperatorship at ht
        split at ht
        · cases ht
        · split at ht
          · split at ht
            · cases ht
            · cases ht; exact ⟨hinv.fwd, hinv.bwd⟩
          · cases ht
      · -- an upgrade by the owner: the operator field is not part of the registry, and every set it
        -- registers goes through the same raw rotation
        exact upgrade_induct C c.ctx.now RegInv (fun s o h => ⟨h.fwd, h.bwd⟩)
          (fun s s' ws e h hr => rotateSignersRaw_regInv C s s' _ ws _ e h hr) st op ss st' ev hinv hu
      · exact hinv
  have hinit' : RegInv st0 := init_regInv C now args st0 evs hinit
  have all : ∀ (cs : List Call) (st : State), RegInv st → RegInv (run C st cs) := by
    intro cs
    induction cs with
    | nil => intro st h; exact h
    | cons c cs ih => intro st h; exact ih (stepCall C st c) (step st c h)
  exact all cs st0 hinit'

/-! ### The digest binds domain, signer set, command tag and batch bytes (collision-or-equal) -/

/-- Two digests agree only if every component agrees — or the proof exhibits an explicit
    collision of `H`.  (Domain separators and hashes are fixed-width fields.) -/
theorem digest_binding (C : Crypto) (d d' s s' x x' : Bytes) (hd : d.length = d'.length)
    (hs : s.length = s'.length) (h : digest C d s x = digest C d' s' x') :
    (d = d' ∧ s = s' ∧ x = x') ∨ ∃ a b, a ≠ b ∧ C.H a = C.H b := by
  unfold digest at h
  by_cases he : Generated.signedMessagePrefix ++ d ++ s ++ x = Generated.signedMessagePrefix ++ d' ++ s' ++ x'
  · left
    simp only [List.append_assoc] at he
    have h1 := List.append_cancel_left he
    obtain ⟨h2, h3⟩ := List.append_inj h1 hd
    obtain ⟨h4, h5⟩ := List.append_inj h3 hs
    exact ⟨h2, h4, h5⟩
  · right; exact ⟨_, _, he, h⟩

theorem dataHash_binding (C : Crypto) (t t' : UInt8) (r r' : Bytes)
    (h : dataHash C t r = dataHash C t' r') :
    (t = t' ∧ r = r') ∨ ∃ a b, a ≠ b ∧ C.H a = C.H b := by
  unfold dataHash at h
  by_cases he : t :: r = t' :: r'
  · left; simpa using he
  · right; exact ⟨_, _, he, h⟩

/-- A signature set that authorises `RotateSigners` over some bytes authorises no approval:
    the two command tags differ, so equal digests would be a collision. -/
theorem command_tags_differ : tagApproveMessages ≠ tagRotateSigners := by decide

/-! ### Tie to the source -/
/-- `"\x19MultiversX Signed Message:\n"` -/
theorem prefix_constant :
    Generated.signedMessagePrefix =
      [25, 77, 117, 108, 116, 105, 118, 101, 114, 115, 88, 32, 83, 105, 103, 110, 101, 100, 32, 77,
       101, 115, 115, 97, 103, 101, 58, 10] := by
  decide

theorem command_type_order : Generated.commandTypes = ["ApproveMessages", "RotateSigners"] := by
  decide

/-! ### Non-vacuity (tests) -/
/-- the hypotheses of `validateProof_complete` are satisfiable: a two-signer set in which the
    second signer alone reaches the threshold -/
example :
    let C : Crypto := ⟨fun _ => [], fun k _ s => k == s⟩
    let ss : List WeightedSigner := [⟨[1], 1⟩, ⟨[2], 3⟩]
    allSuppliedValid C [] ss [none, some [2]] = true ∧ suppliedWeight ss [none, some [2]] ≥ 3 ∧
    validWeight C [] ss [some [9], some [2]] = 3 := by decide

end Axelar.Props.C01
