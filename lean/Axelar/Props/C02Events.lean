/-
  C02 — "the approved events always agree with that state": an approval batch announces exactly the entries
  it created, each once, with the contents that were stored.
-/
import Axelar.Props.C02
namespace Axelar.Props.C02
open Axelar Axelar.Gateway Codec

/-- the event `approveMessages` emits for a message it approves -/
def approvalEvent (m : Message) : Ev :=
  ⟨"message_approved_event", [m.sourceChain, m.messageId, m.sourceAddress, m.contractAddress, m.payloadHash], [[]]⟩

def keyOf (m : Message) : Bytes × Bytes := (m.sourceChain, m.messageId)

/-- the entry an approval of `m` stores -/
def approvalOf (C : Crypto) (m : Message) : MsgState :=
  .approved (messageHash C m.sourceChain m.messageId m.sourceAddress m.contractAddress m.payloadHash)

/-- `e` announces an approval of the id `k` -/
def announces (e : Ev) (k : Bytes × Bytes) : Bool := e.topics.take 2 == [k.1, k.2]

theorem approvalEvent_announces (m : Message) (k : Bytes × Bytes) :
    announces (approvalEvent m) k = decide (keyOf m = k) := by
  obtain ⟨a, b⟩ := k
  simp only [announces, approvalEvent, keyOf, List.take]
  by_cases h : m.sourceChain = a ∧ m.messageId = b
  · obtain ⟨rfl, rfl⟩ := h; simp
  · have : ¬ ((m.sourceChain, m.messageId) = (a, b)) := by
      intro e; simp only [Prod.mk.injEq] at e; exact h e
    simp only [this, decide_false]
    simp only [beq_eq_false_iff_ne, ne_eq, List.cons.injEq, and_true, not_and]
    intro h1 h2; exact h ⟨h1, h2⟩

theorem approveMessage_cases (C : Crypto) (st : State) (m : Message) :
    (st.messages (keyOf m) = .nonExistent ∧
      approveMessage C st m =
        ({ st with messages := upd st.messages (keyOf m) (approvalOf C m) }, [approvalEvent m])) ∨
    (st.messages (keyOf m) ≠ .nonExistent ∧ approveMessage C st m = (st, [])) := by
  unfold approveMessage
  split
  · rename_i h; exact Or.inl ⟨h, rfl⟩
  · rename_i h
    refine Or.inr ⟨?_, rfl⟩
    intro hc; exact h hc

/-- what one batch does, event by event -/
theorem approveAll_events (C : Crypto) (ms : List Message) (st : State) (evs0 : List Ev) :
    ∃ new, (approveAll C st ms evs0).2 = evs0 ++ new ∧
      (∀ e ∈ new, ∃ m ∈ ms, e = approvalEvent m ∧ st.messages (keyOf m) = .nonExistent ∧
        (approveAll C st ms evs0).1.messages (keyOf m) =
          .approved (messageHash C m.sourceChain m.messageId m.sourceAddress m.contractAddress m.payloadHash)) ∧
      (∀ k, ((approveAll C st ms evs0).1.messages k ≠ st.messages k → (new.filter (fun e => announces e k)).length = 1) ∧
            ((approveAll C st ms evs0).1.messages k = st.messages k → (new.filter (fun e => announces e k)).length = 0)) := by
  induction ms generalizing st evs0 with
  | nil =>
    refine ⟨[], by simp [approveAll], by simp, ?_⟩
    intro k; simp [approveAll]
  | cons m ms ih =>
    simp only [approveAll]
    obtain ⟨new, h1, h2, h3⟩ := ih (approveMessage C st m).1 (evs0 ++ (approveMessage C st m).2)
    refine ⟨(approveMessage C st m).2 ++ new, by rw [h1]; simp [List.append_assoc], ?_, ?_⟩
    · intro e he
      rcases List.mem_append.mp he with h | h
      · -- the event of `m` itself: its entry was non-existent and is never touched again in this batch
        rcases approveMessage_cases C st m with ⟨hne, heq⟩ | ⟨_, heq⟩
        · rw [heq] at h
          simp only [List.mem_singleton] at h
          refine ⟨m, List.mem_cons_self, h, hne, ?_⟩
          have ht := approveAll_trans C (approveMessage C st m).1 ms (evs0 ++ (approveMessage C st m).2) (keyOf m)
          rw [heq] at ht ⊢
          have hmid : (upd st.messages (keyOf m) (approvalOf C m)) (keyOf m) = approvalOf C m := by simp [upd]
          simp only at ht
          rw [hmid] at ht
          rcases ht with ht | ⟨ht, _⟩
          · rw [ht]; rfl
          · cases ht
        · rw [heq] at h; simp at h
      · obtain ⟨m', hm', he', hn', ha'⟩ := h2 e h
        refine ⟨m', List.mem_cons_of_mem _ hm', he', ?_, ha'⟩
        -- non-existent after `m` was processed means non-existent before
        have ht := approveMessage_trans C st m (keyOf m')
        rcases ht with ht | ⟨ht, _⟩
        · rw [← ht]; exact hn'
        · exact ht
    · intro k
      rw [List.filter_append, List.length_append]
      obtain ⟨h3a, h3b⟩ := h3 k
      have hrest := approveAll_trans C (approveMessage C st m).1 ms (evs0 ++ (approveMessage C st m).2) k
      rcases approveMessage_cases C st m with ⟨hne, heq⟩ | ⟨_, heq⟩
      · by_cases hk : keyOf m = k
        · subst hk
          -- the entry is created by `m` and never touched again in this batch: exactly the event of `m`
          have hmid : (approveMessage C st m).1.messages (keyOf m) = approvalOf C m := by rw [heq]; simp [upd]
          have hfin : (approveAll C (approveMessage C st m).1 ms (evs0 ++ (approveMessage C st m).2)).1.messages (keyOf m) =
              (approveMessage C st m).1.messages (keyOf m) := by
            rcases hrest with hr | ⟨hr, _⟩
            · exact hr
            · rw [hmid] at hr; cases hr
          have h0 := h3b hfin
          have hev : ((approveMessage C st m).2.filter (fun e => announces e (keyOf m))).length = 1 := by
            rw [heq]; simp [approvalEvent_announces]
          refine ⟨fun _ => by rw [hev, h0], fun hc => ?_⟩
          rw [hfin, hmid, hne] at hc
          cases hc
        · have hsame : (approveMessage C st m).1.messages k = st.messages k := by
            rw [heq]; simp only [upd]; split
            · rename_i h; exact absurd h.symm hk
            · rfl
          have hev : ((approveMessage C st m).2.filter (fun e => announces e k)).length = 0 := by
            rw [heq]; simp [approvalEvent_announces, hk]
          rw [hev]
          simp only [Nat.zero_add]
          rw [hsame] at h3a h3b
          exact ⟨h3a, h3b⟩
      · have hev : ((approveMessage C st m).2.filter (fun e => announces e k)).length = 0 := by rw [heq]; simp
        have hsame : (approveMessage C st m).1 = st := by rw [heq]
        rw [hev]
        simp only [Nat.zero_add]
        have hs2 : (approveMessage C st m).1.messages k = st.messages k := by rw [hsame]
        rw [hs2] at h3a h3b
        exact ⟨h3a, h3b⟩

/-- **The approved events agree with the state.**  For every accepted approval batch: every `message_approved_event`
    announces a message of the batch whose entry did not exist before the call and is, after the call, the approval of
    exactly that message; and every entry the call changed is announced by exactly one event (entries it left alone —
    already approved, already executed, repeated inside the batch — by none). -/
theorem approved_events_agree_with_state (C : Crypto) (st st' : State) (ctx : Ctx) (args rs : List Bytes)
    (evs : List Ev) (h : call C st ctx "approveMessages" args = .ok (st', rs, evs)) :
    (∀ e ∈ evs, ∃ m : Message, e = approvalEvent m ∧ st.messages (keyOf m) = .nonExistent ∧
      st'.messages (keyOf m) =
        .approved (messageHash C m.sourceChain m.messageId m.sourceAddress m.contractAddress m.payloadHash)) ∧
    (∀ k, (st'.messages k ≠ st.messages k → (evs.filter (fun e => announces e k)).length = 1) ∧
          (st'.messages k = st.messages k → (evs.filter (fun e => announces e k)).length = 0)) := by
  obtain ⟨m, p, rfl, ha⟩ := approve_call_inv C st st' ctx args rs evs h
  obtain ⟨proof, msgs, b, _, _, _, _, he⟩ := approveMessages_spec C st st' m p evs ha
  obtain ⟨new, h1, h2, h3⟩ := approveAll_events C msgs st []
  rw [← he] at h1 h2 h3
  simp only [List.nil_append] at h1
  subst h1
  exact ⟨fun e he' => by obtain ⟨m', _, a, b', c⟩ := h2 e he'; exact ⟨m', a, b', c⟩, h3⟩

end Axelar.Props.C02
