/-
  C12 — over every history of the composed world: a governance command is processed at most once.
-/
import Axelar.Props.C12
import Axelar.Proofs.GwHistory
namespace Axelar.Props.C12
open Axelar Axelar.Governance Codec

/-- **A processed command can never be replayed — in any later state of any history.**  Once the gateway
    entry of (source chain, message id) is executed (which is what a successful `execute` leaves behind:
    `command_is_authenticated`), then after every sequence of transactions, deliveries, callbacks and
    environment moves of the composed world — by any callers, to any contracts, in any order — `execute` for
    that message fails, whatever the governance state, the caller, the source address or the payload. -/
theorem command_never_replayed (C : Crypto) (w : World) (ops : List World.Op) (chain id : Bytes)
    (hex : w.gw.messages (chain, id) = .executed) (st : State) (ctx : Ctx) (src payload : Bytes) :
    ∃ e, execute C st (World.run C w ops).gw ctx chain id src payload = .error e := by
  apply unapproved_command_rejected
  rw [(World.run_life C ops w (chain, id)).1 hex]
  intro h; cases h

/-- … and the command that has just been processed is such a message: after a successful `execute` in a
    world whose gateway is `gw`, every later attempt in every history that starts from the resulting
    gateway state fails. -/
theorem processed_command_never_replayed (C : Crypto) (w : World) (ops : List World.Op) (st st' : State)
    (gw' : Gateway.State) (ctx : Ctx) (chain id src payload : Bytes) (e1 e2 : List Ev)
    (h : execute C st w.gw ctx chain id src payload = .ok (st', gw', e1, e2))
    (st2 : State) (ctx2 : Ctx) (src2 payload2 : Bytes) :
    ∃ e, execute C st2 (World.run C { w with gw := gw' } ops).gw ctx2 chain id src2 payload2 = .error e :=
  command_never_replayed C { w with gw := gw' } ops chain id
    (command_is_authenticated C st st' w.gw gw' ctx chain id src payload e1 e2 h).2.2.2.1 st2 ctx2 src2 payload2

end Axelar.Props.C12
