/-
  C05 — ITS outbound transfers conserve value and emit a faithful cross-chain message.
-/
import Axelar.Proofs.ItsMonad
namespace Axelar.Props.C05
open Axelar Axelar.ItsW Axelar.Its Codec

/-- total attached amount of token `t` (`none` = EGLD) -/
def attached (egld : Nat) (esdt : List (Bytes × Nat × Nat)) (t : Its.Tok) : Nat :=
  (match t with | none => egld | some _ => 0) +
  (esdt.map fun (tok, _, amt) => if some tok = t then amt else 0).sum

/-- **The four payment shapes, exactly.**  The split succeeds iff the payment is: EGLD > gas;
    one fungible ESDT > gas; or two fungible ESDTs whose second equals the gas value (the
    EGLD-as-ESDT identifier meaning EGLD gas).  Transfer amount and gas token are as the
    property states. -/
theorem split_shapes (egld : Nat) (esdt : List (Bytes × Nat × Nat)) (gas : Nat) (tg : TransferAndGas) :
    getTransferAndGasTokens egld esdt gas = some tg ↔
      (esdt = [] ∧ gas < egld ∧ tg = ⟨none, egld - gas, none, gas⟩) ∨
      (∃ tok amt, esdt = [(tok, 0, amt)] ∧ gas < amt ∧ tg = ⟨some tok, amt - gas, some tok, gas⟩) ∨
      (∃ tok amt tok2, esdt = [(tok, 0, amt), (tok2, 0, gas)] ∧
        tg = ⟨some tok, amt, if tok2 = Generated.ESDT_EGLD_IDENTIFIER then none else some tok2, gas⟩) := by
  constructor
  · intro h
    unfold getTransferAndGasTokens at h
    split at h
    · split at h
      · rename_i hg; cases h; exact Or.inl ⟨rfl, hg, rfl⟩
      · cases h
    · rename_i tok nonce amt
      split at h
      · cases h
      · rename_i hn
        split at h
        · rename_i hg
          cases h
          have : nonce = 0 := by simpa using hn
          subst this
          exact Or.inr (Or.inl ⟨tok, amt, rfl, hg, rfl⟩)
        · cases h
    · rename_i tok nonce amt tok2 nonce2 amt2
      split at h
      · cases h
      · rename_i hn
        split at h
        · cases h
        · rename_i hn2
          split at h
          · cases h
          · rename_i hg
            cases h
            have e1 : nonce = 0 := by simpa using hn
            have e2 : nonce2 = 0 := by simpa using hn2
            have e3 : amt2 = gas := by simpa using hg
            subst e1 e2 e3
            refine Or.inr (Or.inr ⟨tok, amt, tok2, rfl, ?_⟩)
            by_cases ht : tok2 = Generated.ESDT_EGLD_IDENTIFIER <;> simp [ht]
    · cases h
  · rintro (⟨rfl, hg, rfl⟩ | ⟨tok, amt, rfl, hg, rfl⟩ | ⟨tok, amt, tok2, rfl, rfl⟩)
    · simp [getTransferAndGasTokens, hg]
    · simp [getTransferAndGasTokens, hg]
    · simp only [getTransferAndGasTokens, bne_self_eq_false, Bool.false_eq_true, if_false]
      by_cases ht : tok2 = Generated.ESDT_EGLD_IDENTIFIER <;> simp [ht]

/-- **What leaves the sender equals transfer + gas.**  When transfer and gas are paid in the
    same token the two parts add up to the single payment; with two payments each part is one
    payment. -/
theorem split_conserves (egld : Nat) (esdt : List (Bytes × Nat × Nat)) (gas : Nat) (tg : TransferAndGas)
    (h : getTransferAndGasTokens egld esdt gas = some tg) :
    tg.gasAmount = gas ∧ 0 < tg.transferAmount + (if esdt.length = 2 then 1 else 0) ∧
    ((esdt.length ≤ 1 ∧ tg.gasToken = tg.transferToken ∧
        tg.transferAmount + tg.gasAmount = attached egld esdt tg.transferToken ∧
        (∀ t, t ≠ tg.transferToken → attached egld esdt t = 0 ∨ (t = none ∧ esdt ≠ [] ∧ egld = attached egld esdt t))) ∨
     (∃ tok amt tok2, esdt = [(tok, 0, amt), (tok2, 0, gas)] ∧ tg.transferAmount = amt ∧
        tg.transferToken = some tok)) := by
  rcases (split_shapes egld esdt gas tg).mp h with ⟨rfl, hg, rfl⟩ | ⟨tok, amt, rfl, hg, rfl⟩ | ⟨tok, amt, tok2, rfl, rfl⟩
  · refine ⟨rfl, by simp; omega, Or.inl ⟨by simp, rfl, by simp [attached]; omega, ?_⟩⟩
    intro t ht
    cases t with
    | none => exact absurd rfl ht
    | some x => left; simp [attached]
  · refine ⟨rfl, by simp; omega, Or.inl ⟨by simp, rfl, by simp [attached]; omega, ?_⟩⟩
    intro t ht
    cases t with
    | none => right; simp [attached]
    | some x =>
      left
      have : ¬ tok = x := fun e => ht (by rw [e])
      simp [attached, this]
  · exact ⟨rfl, by simp, Or.inr ⟨tok, amt, tok2, rfl, rfl, rfl⟩⟩

/-- **Refusals**: zero transfer amount, empty destination address, and unroutable destination
    chains make the transmission fail (and with it the whole transaction, take-token included). -/
theorem transmit_refusals (C : Crypto) (cx : ICtx) (tid src chain addr : Bytes) (tg : TransferAndGas)
    (data : Bytes) (t : Tx) :
    (addr = [] → transmitInterchainTransfer C cx tid src chain addr tg data t = none) ∧
    (tg.transferAmount = 0 → transmitInterchainTransfer C cx tid src chain addr tg data t = none) ∧
    (getCallParams t.w.its chain [] = none → addr ≠ [] → 0 < tg.transferAmount →
       (∀ p, getCallParams t.w.its chain p = none) →
       transmitInterchainTransfer C cx tid src chain addr tg data t = none) := by
  refine ⟨fun h => by simp [transmitInterchainTransfer, h], fun h => by
    simp only [transmitInterchainTransfer, run_bind, run_require]
    by_cases ha : (!addr.isEmpty) = true <;> simp [ha, h], fun _ ha hp hall => ?_⟩
  simp only [transmitInterchainTransfer, run_bind, run_require]
  have h1 : (!addr.isEmpty) = true := by simpa using ha
  have h2 : decide (tg.transferAmount > 0) = true := by simpa using hp
  simp only [h1, h2, if_true]
  cases he : Abi.Transfer.encode ⟨Generated.MESSAGE_TYPE_INTERCHAIN_TRANSFER, tid, src, addr, tg.transferAmount, data⟩ with
  | error e => simp
  | ok payload => simp [routeMessage, hall payload]

/-- the payload handed to the gateway is the ABI encoding of exactly the transfer record
    (message type 0, this token id, the sender, the destination address, the transfer amount,
    the data) -/
theorem payload_is_the_transfer_record (C : Crypto) (cx : ICtx) (tid src chain addr : Bytes)
    (tg : TransferAndGas) (data : Bytes) (t t' : Tx)
    (h : transmitInterchainTransfer C cx tid src chain addr tg data t = some ((), t')) :
    ∃ payload, Abi.Transfer.encode ⟨0, tid, src, addr, tg.transferAmount, data⟩ = .ok payload ∧
      addr ≠ [] ∧ 0 < tg.transferAmount ∧ ∃ t1, routeMessage C cx chain payload tg.gasToken tg.gasAmount t = some ((), t1) := by
  simp only [transmitInterchainTransfer, run_bind, run_require] at h
  by_cases ha : (!addr.isEmpty) = true
  · simp only [ha, if_true] at h
    by_cases hp : decide (tg.transferAmount > 0) = true
    · simp only [hp, if_true] at h
      cases he : Abi.Transfer.encode ⟨Generated.MESSAGE_TYPE_INTERCHAIN_TRANSFER, tid, src, addr, tg.transferAmount, data⟩ with
      | error e => simp [he] at h
      | ok payload =>
        simp only [he, run_bind] at h
        cases hr : routeMessage C cx chain payload tg.gasToken tg.gasAmount t with
        | none => simp [hr] at h
        | some r =>
          obtain ⟨u, t1⟩ := r
          cases u
          exact ⟨payload, he, by simpa using ha, by simpa using hp, t1, hr⟩
    · simp [hp] at h
  · simp [ha] at h

theorem egld_as_esdt_identifier :
    Generated.ESDT_EGLD_IDENTIFIER = [69, 71, 76, 68, 45, 48, 48, 48, 48, 48, 48] := by decide

/-! ### Non-vacuity (tests) -/
example : getTransferAndGasTokens 0 [([1], 0, 100), ([2], 0, 7)] 7 = some ⟨some [1], 100, some [2], 7⟩ := by
  decide
example : getTransferAndGasTokens 100 [] 100 = none := by decide

end Axelar.Props.C05
