/-
  C05 — ITS outbound transfers conserve value and emit a faithful cross-chain message.
-/
import Axelar.Proofs.ItsEvents
namespace Axelar.Props.C05
open Axelar Axelar.ItsW Axelar.Its Codec

/-- total attached amount of token `t` (`none` = EGLD) -/
def attached (egld : Nat) (esdt : List (Bytes × Nat × Nat)) (t : Its.Tok) : Nat :=
  (match t with | none => egld | some _ => 0) +
  (esdt.map fun (tok, _, amt) => if some tok = t then amt else 0).sum

/-- **The four payment shapes, exactly.**  The split succeeds iff the payment is: EGLD > gas;
    one fungible ESDT > gas; or two fungible ESDTs whose second equals the gas value (the
    EGLD-as-ESDT identifier meaning EGLD gas).  Transfer amount and gas token are as the
    property states. -/
theorem split_shapes (egld : Nat) (esdt : List (Bytes × Nat × Nat)) (gas : Nat) (tg : TransferAndGas) :
    getTransferAndGasTokens egld esdt gas = some tg ↔
      (esdt = [] ∧ gas < egld ∧ tg = ⟨none, egld - gas, none, gas⟩) ∨
      (∃ tok amt, esdt = [(tok, 0, amt)] ∧ gas < amt ∧ tg = ⟨some tok, amt - gas, some tok, gas⟩) ∨
      (∃ tok amt tok2, esdt = [(tok, 0, amt), (tok2, 0, gas)] ∧
        tg = ⟨some tok, amt, if tok2 = Generated.ESDT_EGLD_IDENTIFIER then none else some tok2, gas⟩) := by
  constructor
  · intro h
    unfold getTransferAndGasTokens at h
    split at h
    · split at h
      · rename_i hg; cases h; exact Or.inl ⟨rfl, hg, rfl⟩
      · cases h
    · rename_i tok nonce amt
      split at h
      · cases h
      · rename_i hn
        split at h
        · rename_i hg
          cases h
          have : nonce = 0 := by simpa using hn
          subst this
          exact Or.inr (Or.inl ⟨tok, amt, rfl, hg, rfl⟩)
        · cases h
    · rename_i tok nonce amt tok2 nonce2 amt2
      split at h
      · cases h
      · rename_i hn
        split at h
        · cases h
        · rename_i hn2
          split at h
          · cases h
          · rename_i hg
            cases h
            have e1 : nonce = 0 := by simpa using hn
            have e2 : nonce2 = 0 := by simpa using hn2
            have e3 : amt2 = gas := by simpa using hg
            subst e1 e2 e3
            refine Or.inr (Or.inr ⟨tok, amt, tok2, rfl, ?_⟩)
            by_cases ht : tok2 = Generated.ESDT_EGLD_IDENTIFIER <;> simp [ht]
    · cases h
  · rintro (⟨rfl, hg, rfl⟩ | ⟨tok, amt, rfl, hg, rfl⟩ | ⟨tok, amt, tok2, rfl, rfl⟩)
    · simp [getTransferAndGasTokens, hg]
    · simp [getTransferAndGasTokens, hg]
    · simp only [getTransferAndGasTokens, bne_self_eq_false, Bool.false_eq_true, if_false]
      by_cases ht : tok2 = Generated.ESDT_EGLD_IDENTIFIER <;> simp [ht]

/-- **What leaves the sender equals transfer + gas.**  When transfer and gas are paid in the
    same token the two parts add up to the single payment; with two payments each part is one
    payment. -/
theorem split_conserves (egld : Nat) (esdt : List (Bytes × Nat × Nat)) (gas : Nat) (tg : TransferAndGas)
    (h : getTransferAndGasTokens egld esdt gas = some tg) :
    tg.gasAmount = gas ∧ 0 < tg.transferAmount + (if esdt.length = 2 then 1 else 0) ∧
    ((esdt.length ≤ 1 ∧ tg.gasToken = tg.transferToken ∧
        tg.transferAmount + tg.gasAmount = attached egld esdt tg.transferToken ∧
        (∀ t, t ≠ tg.transferToken → attached egld esdt t = 0 ∨ (t = none ∧ esdt ≠ [] ∧ egld = attached egld esdt t))) ∨
     (∃ tok amt tok2, esdt = [(tok, 0, amt), (tok2, 0, gas)] ∧ tg.transferAmount = amt ∧
        tg.transferToken = some tok)) := by
  rcases (split_shapes egld esdt gas tg).mp h with ⟨rfl, hg, rfl⟩ | ⟨tok, amt, rfl, hg, rfl⟩ | ⟨tok, amt, tok2, rfl, rfl⟩
  · refine ⟨rfl, by simp; omega, Or.inl ⟨by simp, rfl, by simp [attached]; omega, ?_⟩⟩
    intro t ht
    cases t with
    | none => exact absurd rfl ht
    | some x => left; simp [attached]
  · refine ⟨rfl, by simp; omega, Or.inl ⟨by simp, rfl, by simp [attached]; omega, ?_⟩⟩
    intro t ht
    cases t with
    | none => right; simp [attached]
    | some x =>
      left
      have : ¬ tok = x := fun e => ht (by rw [e])
      simp [attached, this]
  · exact ⟨rfl, by simp, Or.inr ⟨tok, amt, tok2, rfl, rfl, rfl⟩⟩

/-- **Refusals**: zero transfer amount, empty destination address, and unroutable destination
    chains make the transmission fail (and with it the whole transaction, take-token included). -/
theorem transmit_refusals (C : Crypto) (cx : ICtx) (tid src chain addr : Bytes) (tg : TransferAndGas)
    (data : Bytes) (t : Tx) :
    (addr = [] → transmitInterchainTransfer C cx tid src chain addr tg data t = none) ∧
    (tg.transferAmount = 0 → transmitInterchainTransfer C cx tid src chain addr tg data t = none) ∧
    (getCallParams t.w.its chain [] = none → addr ≠ [] → 0 < tg.transferAmount →
       (∀ p, getCallParams t.w.its chain p = none) →
       transmitInterchainTransfer C cx tid src chain addr tg data t = none) := by
  refine ⟨fun h => by simp [transmitInterchainTransfer, h], fun h => by
    simp only [transmitInterchainTransfer, run_bind, run_require]
    by_cases ha : (!addr.isEmpty) = true <;> simp [ha, h], fun _ ha hp hall => ?_⟩
  simp only [transmitInterchainTransfer, run_bind, run_require]
  have h1 : (!addr.isEmpty) = true := by simpa using ha
  have h2 : decide (tg.transferAmount > 0) = true := by simpa using hp
  simp only [h1, h2, if_true]
  cases he : Abi.Transfer.encode ⟨Generated.MESSAGE_TYPE_INTERCHAIN_TRANSFER, tid, src, addr, tg.transferAmount, data⟩ with
  | error e => simp
  | ok payload => simp [routeMessage, hall payload]

/-- the payload handed to the gateway is the ABI encoding of exactly the transfer record
    (message type 0, this token id, the sender, the destination address, the transfer amount,
    the data) -/
theorem payload_is_the_transfer_record (C : Crypto) (cx : ICtx) (tid src chain addr : Bytes)
    (tg : TransferAndGas) (data : Bytes) (t t' : Tx)
    (h : transmitInterchainTransfer C cx tid src chain addr tg data t = some ((), t')) :
    ∃ payload, Abi.Transfer.encode ⟨0, tid, src, addr, tg.transferAmount, data⟩ = .ok payload ∧
      addr ≠ [] ∧ 0 < tg.transferAmount ∧ ∃ t1, routeMessage C cx chain payload tg.gasToken tg.gasAmount t = some ((), t1) := by
  simp only [transmitInterchainTransfer, run_bind, run_require] at h
  by_cases ha : (!addr.isEmpty) = true
  · simp only [ha, if_true] at h
    by_cases hp : decide (tg.transferAmount > 0) = true
    · simp only [hp, if_true] at h
      cases he : Abi.Transfer.encode ⟨Generated.MESSAGE_TYPE_INTERCHAIN_TRANSFER, tid, src, addr, tg.transferAmount, data⟩ with
      | error e => simp [he] at h
      | ok payload =>
        simp only [he, run_bind] at h
        cases hr : routeMessage C cx chain payload tg.gasToken tg.gasAmount t with
        | none => simp [hr] at h
        | some r =>
          obtain ⟨u, t1⟩ := r
          cases u
          exact ⟨payload, he, by simpa using ha, by simpa using hp, t1, hr⟩
    · simp [hp] at h
  · simp [ha] at h


/-! ### The emitted message, exactly -/

/-- **A successful outbound transmission (EGLD or no gas) emits exactly**: for a non-zero gas value
    one gas-paid event to the gas service for the routed destination and the hash of the routed
    payload, with the caller (the sender) as refund address; then ONE gateway contract-call event
    whose destination is what the trusted table prescribes (the trusted peer, or the hub with the
    wrapped payload), whose payload is the routed ABI payload and whose payload hash is the hash
    of that payload; then the service's own transfer event.  And exactly the gas value moves
    from the service to the gas service. -/
theorem outbound_message_events (C : Crypto) (cx : ICtx) (tid src chain addr : Bytes) (tg : TransferAndGas)
    (data : Bytes) (t t' : Tx) (hgas : tg.gasToken = none)
    (hkgs : t.w.kind t.w.its.gasService = some .gasService) (hkgw : t.w.kind t.w.its.gateway = some .gateway)
    (h : transmitInterchainTransfer C cx tid src chain addr tg data t = some ((), t')) :
    ∃ payload dc da p,
      Abi.Transfer.encode ⟨0, tid, src, addr, tg.transferAmount, data⟩ = .ok payload ∧
      getCallParams t.w.its chain payload = some (dc, da, p) ∧
      t'.evs = t.evs ++
        (if tg.gasAmount > 0 then [⟨t.w.its.gasService, "native_gas_paid_for_contract_call_event", [cx.self, dc, da],
            [GasService.nativeGasPaidData (C.H p) tg.gasAmount cx.caller]⟩] else []) ++
        [⟨t.w.its.gateway, "contract_call_event", [cx.self, dc, da, C.H p], [p]⟩] ++
        [⟨cx.self, "interchain_transfer_event", [tid, src, if data.isEmpty then zeroHash else C.H data],
            [nestBuf chain ++ nestBuf addr ++ nestBig tg.transferAmount]⟩] ∧
      (∀ x, World.egld t'.w x = World.movedEgld t.w cx.self t.w.its.gasService tg.gasAmount x) := by
  simp only [transmitInterchainTransfer, run_bind, run_require] at h
  by_cases ha : (!addr.isEmpty) = true
  · simp only [ha, if_true] at h
    by_cases hp : decide (tg.transferAmount > 0) = true
    · simp only [hp, if_true] at h
      cases he : Abi.Transfer.encode ⟨Generated.MESSAGE_TYPE_INTERCHAIN_TRANSFER, tid, src, addr, tg.transferAmount, data⟩ with
      | error e => simp [he] at h
      | ok payload =>
        simp only [he, run_bind] at h
        cases hr : routeMessage C cx chain payload tg.gasToken tg.gasAmount t with
        | none => simp [hr] at h
        | some r =>
          obtain ⟨u, t1⟩ := r
          simp only [hr, run_emit, Option.some.injEq, Prod.mk.injEq, true_and] at h
          subst h
          -- the route
          simp only [routeMessage, run_bind, run_getI] at hr
          cases hg : getCallParams t.w.its chain payload with
          | none => simp [hg] at hr
          | some v =>
            obtain ⟨dc, da, p⟩ := v
            simp only [hg] at hr
            rw [hgas] at hr
            have hev := callContract_native_events C cx dc da p tg.gasAmount t t1 hkgs hkgw hr
            obtain ⟨_, hbal⟩ := callContract_native_egld C cx dc da p tg.gasAmount t t1 hkgs hkgw hr
            refine ⟨payload, dc, da, p, he, hg, ?_, hbal⟩
            simp only [hev]
    · simp [hp] at h
  · simp [ha] at h

theorem egld_as_esdt_identifier :
    Generated.ESDT_EGLD_IDENTIFIER = [69, 71, 76, 68, 45, 48, 48, 48, 48, 48, 48] := by decide

/-! ### Non-vacuity (tests) -/
example : getTransferAndGasTokens 0 [([1], 0, 100), ([2], 0, 7)] 7 = some ⟨some [1], 100, some [2], 7⟩ := by
  decide
example : getTransferAndGasTokens 100 [] 100 = none := by decide

end Axelar.Props.C05
