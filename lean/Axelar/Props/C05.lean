/-
  C05 — ITS outbound transfers conserve value and emit a faithful cross-chain message.
-/
import Axelar.Proofs.ItsEvents
import Axelar.Proofs.ItsLedger
namespace Axelar.Props.C05
open Axelar Axelar.ItsW Axelar.Its Codec

/-- total attached amount of token `t` (`none` = EGLD) -/
def attached (egld : Nat) (esdt : List (Bytes × Nat × Nat)) (t : Its.Tok) : Nat :=
  (match t with | none => egld | some _ => 0) +
  (esdt.map fun (tok, _, amt) => if some tok = t then amt else 0).sum

/-- **The four payment shapes, exactly.**  The split succeeds iff the payment is: EGLD > gas;
    one fungible ESDT > gas; or two fungible ESDTs whose second equals the gas value (the
    EGLD-as-ESDT identifier meaning EGLD gas).  Transfer amount and gas token are as the
    property states. -/
theorem split_shapes (egld : Nat) (esdt : List (Bytes × Nat × Nat)) (gas : Nat) (tg : TransferAndGas) :
    getTransferAndGasTokens egld esdt gas = some tg ↔
      (esdt = [] ∧ gas < egld ∧ tg = ⟨none, egld - gas, none, gas⟩) ∨
      (∃ tok amt, esdt = [(tok, 0, amt)] ∧ gas < amt ∧ tg = ⟨some tok, amt - gas, some tok, gas⟩) ∨
      (∃ tok amt tok2, esdt = [(tok, 0, amt), (tok2, 0, gas)] ∧
        tg = ⟨some tok, amt, if tok2 = Generated.ESDT_EGLD_IDENTIFIER then none else some tok2, gas⟩) := by
  constructor
  · intro h
    unfold getTransferAndGasTokens at h
    split at h
    · split at h
      · rename_i hg; cases h; exact Or.inl ⟨rfl, hg, rfl⟩
      · cases h
    · rename_i tok nonce amt
      split at h
      · cases h
      · rename_i hn
        split at h
        · rename_i hg
          cases h
          have : nonce = 0 := by simpa using hn
          subst this
          exact Or.inr (Or.inl ⟨tok, amt, rfl, hg, rfl⟩)
        · cases h
    · rename_i tok nonce amt tok2 nonce2 amt2
      split at h
      · cases h
      · rename_i hn
        split at h
        · cases h
        · rename_i hn2
          split at h
          · cases h
          · rename_i hg
            cases h
            have e1 : nonce = 0 := by simpa using hn
            have e2 : nonce2 = 0 := by simpa using hn2
            have e3 : amt2 = gas := by simpa using hg
            subst e1 e2 e3
            refine Or.inr (Or.inr ⟨tok, amt, tok2, rfl, ?_⟩)
            by_cases ht : tok2 = Generated.ESDT_EGLD_IDENTIFIER <;> simp [ht]
    · cases h
  · rintro (⟨rfl, hg, rfl⟩ | ⟨tok, amt, rfl, hg, rfl⟩ | ⟨tok, amt, tok2, rfl, rfl⟩)
    · simp [getTransferAndGasTokens, hg]
    · simp [getTransferAndGasTokens, hg]
    · simp only [getTransferAndGasTokens, bne_self_eq_false, Bool.false_eq_true, if_false]
      by_cases ht : tok2 = Generated.ESDT_EGLD_IDENTIFIER <;> simp [ht]

/-- **What leaves the sender equals transfer + gas.**  When transfer and gas are paid in the
    same token the two parts add up to the single payment; with two payments each part is one
    payment. -/
theorem split_conserves (egld : Nat) (esdt : List (Bytes × Nat × Nat)) (gas : Nat) (tg : TransferAndGas)
    (h : getTransferAndGasTokens egld esdt gas = some tg) :
    tg.gasAmount = gas ∧ 0 < tg.transferAmount + (if esdt.length = 2 then 1 else 0) ∧
    ((esdt.length ≤ 1 ∧ tg.gasToken = tg.transferToken ∧
        tg.transferAmount + tg.gasAmount = attached egld esdt tg.transferToken ∧
        (∀ t, t ≠ tg.transferToken → attached egld esdt t = 0 ∨ (t = none ∧ esdt ≠ [] ∧ egld = attached egld esdt t))) ∨
     (∃ tok amt tok2, esdt = [(tok, 0, amt), (tok2, 0, gas)] ∧ tg.transferAmount = amt ∧
        tg.transferToken = some tok)) := by
  rcases (split_shapes egld esdt gas tg).mp h with ⟨rfl, hg, rfl⟩ | ⟨tok, amt, rfl, hg, rfl⟩ | ⟨tok, amt, tok2, rfl, rfl⟩
  · refine ⟨rfl, by simp; omega, Or.inl ⟨by simp, rfl, by simp [attached]; omega, ?_⟩⟩
    intro t ht
    cases t with
    | none => exact absurd rfl ht
    | some x => left; simp [attached]
  · refine ⟨rfl, by simp; omega, Or.inl ⟨by simp, rfl, by simp [attached]; omega, ?_⟩⟩
    intro t ht
    cases t with
    | none => right; simp [attached]
    | some x =>
      left
      have : ¬ tok = x := fun e => ht (by rw [e])
      simp [attached, this]
  · exact ⟨rfl, by simp, Or.inr ⟨tok, amt, tok2, rfl, rfl, rfl⟩⟩

/-- **Refusals**: zero transfer amount, empty destination address, and unroutable destination
    chains make the transmission fail (and with it the whole transaction, take-token included). -/
theorem transmit_refusals (C : Crypto) (cx : ICtx) (tid src chain addr : Bytes) (tg : TransferAndGas)
    (data : Bytes) (t : Tx) :
    (addr = [] → transmitInterchainTransfer C cx tid src chain addr tg data t = none) ∧
    (tg.transferAmount = 0 → transmitInterchainTransfer C cx tid src chain addr tg data t = none) ∧
    (getCallParams t.w.its chain [] = none → addr ≠ [] → 0 < tg.transferAmount →
       (∀ p, getCallParams t.w.its chain p = none) →
       transmitInterchainTransfer C cx tid src chain addr tg data t = none) := by
  refine ⟨fun h => by simp [transmitInterchainTransfer, h], fun h => by
    simp only [transmitInterchainTransfer, run_bind, run_require]
    by_cases ha : (!addr.isEmpty) = true <;> simp [ha, h], fun _ ha hp hall => ?_⟩
  simp only [transmitInterchainTransfer, run_bind, run_require]
  have h1 : (!addr.isEmpty) = true := by simpa using ha
  have h2 : decide (tg.transferAmount > 0) = true := by simpa using hp
  simp only [h1, h2, if_true]
  cases he : Abi.Transfer.encode ⟨Generated.MESSAGE_TYPE_INTERCHAIN_TRANSFER, tid, src, addr, tg.transferAmount, data⟩ with
  | error e => simp
  | ok payload => simp [routeMessage, hall payload]

/-- the payload handed to the gateway is the ABI encoding of exactly the transfer record
    (message type 0, this token id, the sender, the destination address, the transfer amount,
    the data) -/
theorem payload_is_the_transfer_record (C : Crypto) (cx : ICtx) (tid src chain addr : Bytes)
    (tg : TransferAndGas) (data : Bytes) (t t' : Tx)
    (h : transmitInterchainTransfer C cx tid src chain addr tg data t = some ((), t')) :
    ∃ payload, Abi.Transfer.encode ⟨0, tid, src, addr, tg.transferAmount, data⟩ = .ok payload ∧
      addr ≠ [] ∧ 0 < tg.transferAmount ∧ ∃ t1, routeMessage C cx chain payload tg.gasToken tg.gasAmount t = some ((), t1) := by
  simp only [transmitInterchainTransfer, run_bind, run_require] at h
  by_cases ha : (!addr.isEmpty) = true
  · simp only [ha, if_true] at h
    by_cases hp : decide (tg.transferAmount > 0) = true
    · simp only [hp, if_true] at h
      cases he : Abi.Transfer.encode ⟨Generated.MESSAGE_TYPE_INTERCHAIN_TRANSFER, tid, src, addr, tg.transferAmount, data⟩ with
      | error e => simp [he] at h
      | ok payload =>
        simp only [he, run_bind] at h
        cases hr : routeMessage C cx chain payload tg.gasToken tg.gasAmount t with
        | none => simp [hr] at h
        | some r =>
          obtain ⟨u, t1⟩ := r
          cases u
          exact ⟨payload, he, by simpa using ha, by simpa using hp, t1, hr⟩
    · simp [hp] at h
  · simp [ha] at h


/-! ### The emitted message, exactly -/

/-- **A successful outbound transmission (EGLD or no gas) emits exactly**: for a non-zero gas value
    one gas-paid event to the gas service for the routed destination and the hash of the routed
    payload, with the caller (the sender) as refund address; then ONE gateway contract-call event
    whose destination is what the trusted table prescribes (the trusted peer, or the hub with the
    wrapped payload), whose payload is the routed ABI payload and whose payload hash is the hash
    of that payload; then the service's own transfer event.  And exactly the gas value moves
    from the service to the gas service. -/
theorem outbound_message_events (C : Crypto) (cx : ICtx) (tid src chain addr : Bytes) (tg : TransferAndGas)
    (data : Bytes) (t t' : Tx) (hgas : tg.gasToken = none)
    (hkgs : t.w.kind t.w.its.gasService = some .gasService) (hkgw : t.w.kind t.w.its.gateway = some .gateway)
    (h : transmitInterchainTransfer C cx tid src chain addr tg data t = some ((), t')) :
    ∃ payload dc da p,
      Abi.Transfer.encode ⟨0, tid, src, addr, tg.transferAmount, data⟩ = .ok payload ∧
      getCallParams t.w.its chain payload = some (dc, da, p) ∧
      t'.evs = t.evs ++
        (if tg.gasAmount > 0 then [⟨t.w.its.gasService, "native_gas_paid_for_contract_call_event", [cx.self, dc, da],
            [GasService.nativeGasPaidData (C.H p) tg.gasAmount cx.caller]⟩] else []) ++
        [⟨t.w.its.gateway, "contract_call_event", [cx.self, dc, da, C.H p], [p]⟩] ++
        [⟨cx.self, "interchain_transfer_event", [tid, src, if data.isEmpty then zeroHash else C.H data],
            [nestBuf chain ++ nestBuf addr ++ nestBig tg.transferAmount]⟩] ∧
      (∀ x, World.egld t'.w x = World.movedEgld t.w cx.self t.w.its.gasService tg.gasAmount x) := by
  simp only [transmitInterchainTransfer, run_bind, run_require] at h
  by_cases ha : (!addr.isEmpty) = true
  · simp only [ha, if_true] at h
    by_cases hp : decide (tg.transferAmount > 0) = true
    · simp only [hp, if_true] at h
      cases he : Abi.Transfer.encode ⟨Generated.MESSAGE_TYPE_INTERCHAIN_TRANSFER, tid, src, addr, tg.transferAmount, data⟩ with
      | error e => simp [he] at h
      | ok payload =>
        simp only [he, run_bind] at h
        cases hr : routeMessage C cx chain payload tg.gasToken tg.gasAmount t with
        | none => simp [hr] at h
        | some r =>
          obtain ⟨u, t1⟩ := r
          simp only [hr, run_emit, Option.some.injEq, Prod.mk.injEq, true_and] at h
          subst h
          -- the route
          simp only [routeMessage, run_bind, run_getI] at hr
          cases hg : getCallParams t.w.its chain payload with
          | none => simp [hg] at hr
          | some v =>
            obtain ⟨dc, da, p⟩ := v
            simp only [hg] at hr
            rw [hgas] at hr
            have hev := callContract_native_events C cx dc da p tg.gasAmount t t1 hkgs hkgw hr
            obtain ⟨_, hbal⟩ := callContract_native_egld C cx dc da p tg.gasAmount t t1 hkgs hkgw hr
            refine ⟨payload, dc, da, p, he, hg, ?_, hbal⟩
            simp only [hev]
    · simp [hp] at h
  · simp [ha] at h

/-! ### Value conservation of a whole outbound transfer, every payment shape and gas token -/

/-- the transmission part moves exactly the gas value (in the gas token — EGLD or an ESDT) from
    the service to the gas service, and nothing else -/
theorem transmit_moves_exactly_the_gas (C : Crypto) (cx : ICtx) (tid src chain addr : Bytes) (tg : TransferAndGas)
    (data : Bytes) (t t' : Tx)
    (hkgs : t.w.kind t.w.its.gasService = some .gasService) (hkgw : t.w.kind t.w.its.gateway = some .gateway)
    (h : transmitInterchainTransfer C cx tid src chain addr tg data t = some ((), t')) :
    World.Led t.w t'.w (World.pt cx.self tg.gasToken tg.gasAmount) (World.pt t.w.its.gasService tg.gasToken tg.gasAmount) := by
  simp only [transmitInterchainTransfer, run_bind, run_require] at h
  by_cases ha : (!addr.isEmpty) = true
  · simp only [ha, if_true] at h
    by_cases hp : decide (tg.transferAmount > 0) = true
    · simp only [hp, if_true] at h
      cases he : Abi.Transfer.encode ⟨Generated.MESSAGE_TYPE_INTERCHAIN_TRANSFER, tid, src, addr, tg.transferAmount, data⟩ with
      | error e => simp [he] at h
      | ok payload =>
        simp only [he, run_bind] at h
        cases hr : routeMessage C cx chain payload tg.gasToken tg.gasAmount t with
        | none => simp [hr] at h
        | some r =>
          obtain ⟨u, t1⟩ := r
          simp only [hr, run_emit, Option.some.injEq, Prod.mk.injEq, true_and] at h
          subst h
          simp only [routeMessage, run_bind, run_getI] at hr
          cases hg : getCallParams t.w.its chain payload with
          | none => simp [hg] at hr
          | some v =>
            obtain ⟨dc, da, p⟩ := v
            simp only [hg] at hr
            exact (callContract_led C cx dc da p tg.gasToken tg.gasAmount t t1 hkgs hkgw hr).1
    · simp [hp] at h
  · simp [ha] at h

/-- **Outbound conservation, exactly.**  A successful `interchainTransfer` /
    `callContractWithInterchainToken` body changes the balances of ALL accounts in ALL assets in
    exactly this way: the service hands the transfer amount of the transfer token to the manager
    of the token id (which keeps it when it is lock/unlock and burns it when it is mint/burn:
    `takeIn`), and the gas value of the gas token to the gas service.  The split `tg` is the one
    `split_shapes` characterises; the transfer token is the token recorded by the manager (so a
    payment in any other token fails).  Nothing else moves. -/
theorem outbound_transfer_ledger (C : Crypto) (cx : ICtx) (tid chain addr : Bytes) (data : Option Bytes) (gas : Nat) (t t' : Tx)
    (tm : Bytes) (st : TokenManager.State) (htm : t.w.its.tmAddress tid = tm) (hst : t.w.tms tm = st)
    (hktm : t.w.kind tm = some .tokenManager)
    (hkgs : t.w.kind t.w.its.gasService = some .gasService) (hkgw : t.w.kind t.w.its.gateway = some .gateway)
    (h : interchainTransfer C cx tid chain addr data gas t = some ((), t')) :
    ∃ tg, getTransferAndGasTokens cx.egld cx.esdt gas = some tg ∧ cx.self = st.service ∧
      tg.transferToken = TokenManager.tokOfBytes st.tokenIdentifier ∧
      World.Led t.w t'.w
        (World.plus (World.pt cx.self tg.transferToken tg.transferAmount) (World.pt cx.self tg.gasToken tg.gasAmount))
        (World.plus (takeIn st tm tg.transferAmount) (World.pt t.w.its.gasService tg.gasToken tg.gasAmount)) := by
  simp only [interchainTransfer, run_bind, requireNotPaused_run] at h
  cases hpz : t.w.its.paused
  · simp only [hpz, Bool.false_eq_true, if_false] at h
    cases hsplit : getTransferAndGasTokens cx.egld cx.esdt gas with
    | none => simp [hsplit] at h
    | some tg =>
      simp only [hsplit, run_bind] at h
      cases htk : tmTakeToken C cx tid tg.transferToken tg.transferAmount t with
      | none => simp [htk] at h
      | some r =>
        obtain ⟨u, t1⟩ := r
        cases u
        simp only [htk] at h
        obtain ⟨hsvc, htok, hl1, hkind1⟩ := tmTakeToken_led C cx tid tg.transferToken tg.transferAmount t t1 tm st htm hst hktm htk
        have hits1 := tmTakeToken_keeps_its C cx tid tg.transferToken tg.transferAmount t t1 htk
        have hkgs1 : t1.w.kind t1.w.its.gasService = some .gasService := by rw [hits1, hkind1]; exact hkgs
        have hkgw1 : t1.w.kind t1.w.its.gateway = some .gateway := by rw [hits1, hkind1]; exact hkgw
        cases data with
        | none => simp at h
        | some data =>
          have hl2 := transmit_moves_exactly_the_gas C cx tid cx.caller chain addr tg data t1 t' hkgs1 hkgw1 h
          rw [hits1] at hl2
          exact ⟨tg, rfl, hsvc, htok, hl1.trans hl2⟩
  · simp [hpz] at h

/-- the endpoint on raw arguments is the body above (extraction of the dispatcher branch) -/
theorem call_interchainTransfer (C : Crypto) (cx : ICtx) (tid chain addr md gas : Bytes) :
    ItsW.call C cx "interchainTransfer" [tid, chain, addr, md, gas] =
      (do let _ ← getI
          if tid.length != 32 then fail else
          unit (interchainTransfer C cx tid chain addr (decodeMetadata md) (topBig gas))) := rfl

/-- **The whole transaction.**  A successful `interchainTransfer` transaction by `sender` carrying
    the payment `(egld, esdt)`: the sender loses exactly the attached payments (`payAmt`), the
    service receives them and hands out exactly the transfer amount (to the token manager:
    custody or burn) and the gas value (to the gas service) — for every account and asset. -/
theorem outbound_transaction_ledger (C : Crypto) (w w' : World) (sender its tid chain addr md gasB : Bytes)
    (egld : Nat) (esdt : List (Bytes × Nat × Nat)) (rs : List Bytes) (evs : List Event) (pd : List PendDesc)
    (tm : Bytes) (st : TokenManager.State) (htm : w.its.tmAddress tid = tm) (hst : w.tms tm = st)
    (hk : w.kind its = some .its) (hktm : w.kind tm = some .tokenManager)
    (hkgs : w.kind w.its.gasService = some .gasService) (hkgw : w.kind w.its.gateway = some .gateway)
    (h : World.tx C w sender its "interchainTransfer" egld esdt [tid, chain, addr, md, gasB] = (w', .ok rs evs pd)) :
    ∃ tg, getTransferAndGasTokens egld esdt (topBig gasB) = some tg ∧ its = st.service ∧
      tg.transferToken = TokenManager.tokOfBytes st.tokenIdentifier ∧
      World.Led w w'
        (World.plus (fun x k => if x = sender then World.payAmt egld esdt k else 0)
          (World.plus (World.pt its tg.transferToken tg.transferAmount) (World.pt its tg.gasToken tg.gasAmount)))
        (World.plus (fun x k => if x = its then World.payAmt egld esdt k else 0)
          (World.plus (takeIn st tm tg.transferAmount) (World.pt w.its.gasService tg.gasToken tg.gasAmount))) := by
  unfold World.tx at h
  cases hp : World.pay w sender its egld esdt with
  | none => simp [hp] at h
  | some w1 =>
    simp only [hp, hk] at h
    have hb := World.pay_bal _ _ _ _ _ _ hp
    have hl0 := World.led_pay _ _ _ _ _ _ hp
    cases hc : World.callContract C w1 sender its "interchainTransfer" egld esdt [tid, chain, addr, md, gasB] with
    | none => simp [hc] at h
    | some r =>
      obtain ⟨w2, rs2, evs2, pd2⟩ := r
      simp only [hc, Prod.mk.injEq] at h
      obtain ⟨rfl, _⟩ := h
      unfold World.callContract at hc
      rw [hb.kind, hk] at hc
      simp only [World.runIts] at hc
      cases hr : ItsW.call C (World.itsCtx w1 sender its egld esdt) "interchainTransfer" [tid, chain, addr, md, gasB] { w := w1 } with
      | none => simp [hr] at hc
      | some v =>
        obtain ⟨a, tt⟩ := v
        simp only [hr, Option.some.injEq, Prod.mk.injEq] at hc
        obtain ⟨rfl, _, _, _⟩ := hc
        rw [call_interchainTransfer] at hr
        simp only [run_bind, run_getI] at hr
        by_cases hlen : (tid.length != 32) = true
        · simp [hlen] at hr
        · simp only [hlen, Bool.false_eq_true, if_false, ItsW.unit, run_bind] at hr
          cases hi : interchainTransfer C (World.itsCtx w1 sender its egld esdt) tid chain addr (decodeMetadata md) (topBig gasB) { w := w1 } with
          | none => simp [hi] at hr
          | some q =>
            obtain ⟨u, t2⟩ := q
            cases u
            simp only [hi, run_pure, Option.some.injEq, Prod.mk.injEq] at hr
            obtain ⟨_, rfl⟩ := hr
            have htm1 : w1.its.tmAddress tid = tm := by rw [hb.its]; exact htm
            have hst1 : w1.tms tm = st := by rw [hb.tms]; exact hst
            obtain ⟨tg, hsplit, hsvc, htok, hl⟩ := outbound_transfer_ledger C (World.itsCtx w1 sender its egld esdt) tid chain addr
              (decodeMetadata md) (topBig gasB) { w := w1 } t2 tm st htm1 hst1
              (by show w1.kind tm = _; rw [hb.kind]; exact hktm)
              (by show w1.kind w1.its.gasService = _; rw [hb.kind, hb.its]; exact hkgs)
              (by show w1.kind w1.its.gateway = _; rw [hb.kind, hb.its]; exact hkgw) hi
            refine ⟨tg, hsplit, hsvc, htok, ?_⟩
            have hl' : World.Led w1 t2.w
                (World.plus (World.pt its tg.transferToken tg.transferAmount) (World.pt its tg.gasToken tg.gasAmount))
                (World.plus (takeIn st tm tg.transferAmount) (World.pt w.its.gasService tg.gasToken tg.gasAmount)) := by
              have := hl
              simp only [World.itsCtx, hb.its] at this
              exact this
            exact hl0.trans hl'

/-- what was attached is exactly transfer amount + gas value, asset by asset (a transaction
    carries EGLD or ESDT payments, not both; the EGLD-as-ESDT gas shape is excluded here because
    the debug VM — and therefore the model — keeps `EGLD-000000` and native EGLD apart, which
    the protocol does not) -/
theorem payment_is_transfer_plus_gas (egld : Nat) (esdt : List (Bytes × Nat × Nat)) (gas : Nat) (tg : TransferAndGas)
    (h : getTransferAndGasTokens egld esdt gas = some tg) (hx : esdt ≠ [] → egld = 0)
    (hne : ∀ tok amt, esdt ≠ [(tok, 0, amt), (Generated.ESDT_EGLD_IDENTIFIER, 0, gas)]) (k : World.Asset) :
    World.payAmt egld esdt k =
      (if k = tg.transferToken then tg.transferAmount else 0) + (if k = tg.gasToken then tg.gasAmount else 0) := by
  rcases (split_shapes egld esdt gas tg).mp h with ⟨rfl, hg, rfl⟩ | ⟨tok, amt, rfl, hg, rfl⟩ | ⟨tok, amt, tok2, rfl, rfl⟩
  · simp only [World.payAmt, List.map_nil, List.sum_nil, Nat.add_zero]
    by_cases hk : k = none
    · simp [hk]; omega
    · simp [hk]
  · have he : egld = 0 := hx (by simp)
    subst he
    simp only [World.payAmt, List.map_cons, List.map_nil, List.sum_cons, List.sum_nil, esdtKey, if_true, Nat.add_zero]
    by_cases hk : k = some tok
    · subst hk; simp; omega
    · cases k with
      | none => simp
      | some k' => simp [hk]
  · have he : egld = 0 := hx (by simp)
    subst he
    have h2 : tok2 ≠ Generated.ESDT_EGLD_IDENTIFIER := fun e => hne tok amt (by rw [e])
    simp only [World.payAmt, List.map_cons, List.map_nil, List.sum_cons, List.sum_nil, esdtKey, if_true, Nat.add_zero, h2, if_false]
    cases k with
    | none => simp
    | some k' => simp

/-- **The service's own balances are unchanged** by a successful outbound transfer: what it
    received from the sender is exactly what it handed to the token manager and the gas service
    (service ≠ sender, manager, gas service). -/
theorem service_balances_unchanged (C : Crypto) (w w' : World) (sender its tid chain addr md gasB : Bytes)
    (egld : Nat) (esdt : List (Bytes × Nat × Nat)) (rs : List Bytes) (evs : List Event) (pd : List PendDesc)
    (tm : Bytes) (st : TokenManager.State) (htm : w.its.tmAddress tid = tm) (hst : w.tms tm = st)
    (hk : w.kind its = some .its) (hktm : w.kind tm = some .tokenManager)
    (hkgs : w.kind w.its.gasService = some .gasService) (hkgw : w.kind w.its.gateway = some .gateway)
    (hx : esdt ≠ [] → egld = 0)
    (hne : ∀ tok amt, esdt ≠ [(tok, 0, amt), (Generated.ESDT_EGLD_IDENTIFIER, 0, topBig gasB)])
    (hs : its ≠ sender)
    (h : World.tx C w sender its "interchainTransfer" egld esdt [tid, chain, addr, md, gasB] = (w', .ok rs evs pd))
    (k : World.Asset) : World.balanceOf w' its k = World.balanceOf w its k := by
  obtain ⟨tg, hsplit, _, _, hl⟩ := outbound_transaction_ledger C w w' sender its tid chain addr md gasB egld esdt rs evs pd
    tm st htm hst hk hktm hkgs hkgw h
  have hpay := payment_is_transfer_plus_gas egld esdt (topBig gasB) tg hsplit hx hne k
  have hne1 : its ≠ tm := fun e => by rw [e] at hk; rw [hk] at hktm; cases hktm
  have hne2 : its ≠ w.its.gasService := fun e => by rw [← e] at hkgs; rw [hk] at hkgs; cases hkgs
  have := hl its k
  simp only [World.plus, World.pt, takeIn, hs, hne2, if_false, if_true, true_and, false_and, hpay] at this
  have hz : (if TokenManager.isMintBurnKind st.implType = true then World.nil
      else World.pt tm (TokenManager.tokOfBytes st.tokenIdentifier) tg.transferAmount) its k = 0 := by
    split
    · rfl
    · simp [World.pt, hne1]
  rw [hz] at this
  omega

theorem egld_as_esdt_identifier :
    Generated.ESDT_EGLD_IDENTIFIER = [69, 71, 76, 68, 45, 48, 48, 48, 48, 48, 48] := by decide

/-! ### Non-vacuity (tests) -/
example : getTransferAndGasTokens 0 [([1], 0, 100), ([2], 0, 7)] 7 = some ⟨some [1], 100, some [2], 7⟩ := by
  decide
example : getTransferAndGasTokens 100 [] 100 = none := by decide

end Axelar.Props.C05
