import Axelar.Basic.Bytes
import Axelar.Basic.Keccak
